#!/usr/bin/env python3
"""usage: tools/sweep.py [-j N] [--tier quick] [--no-suite] <dirs...>   (default: seeded/* mutants/*)

Runs every stored property-breaking change (sub-agent seeds under seeded/,
own mutants under mutants/) through tools/sweep1.sh, records what the check of
its property reported under "caught_by" in its meta.json and writes the kill
matrix to KILLS.md. Exit 1 if a change that is expected to be caught is not.
"""
import json, os, signal, subprocess, sys, glob, concurrent.futures as cf

root = os.path.dirname(os.path.dirname(os.path.abspath(__file__)))
args = sys.argv[1:]
jobs, tier, suite = 3, "quick", "1"
dirs = []
while args:
    a = args.pop(0)
    if a == "-j":
        jobs = int(args.pop(0))
    elif a == "--tier":
        tier = args.pop(0)
    elif a == "--no-suite":
        suite = "0"
    else:
        dirs.append(a)
if not dirs:
    dirs = sorted(glob.glob(os.path.join(root, "seeded", "*-*"))) + sorted(glob.glob(os.path.join(root, "mutants", "*-*")))
dirs = [d for d in dirs if os.path.exists(os.path.join(d, "patch.diff"))]


def one(d):
    env = dict(os.environ, SWEEP_SUITE=suite)
    # own session: on a timeout the whole tree (run.sh, supervisor, workers) is killed
    proc = subprocess.Popen([os.path.join(root, "tools", "sweep1.sh"), d, tier], stdout=subprocess.PIPE, stderr=subprocess.PIPE, text=True, env=env, start_new_session=True)
    try:
        out, err = proc.communicate(timeout=int(os.environ.get("SWEEP_TIMEOUT", "2400")))
    except subprocess.TimeoutExpired:
        try:
            os.killpg(proc.pid, signal.SIGKILL)
        except ProcessLookupError:
            pass
        proc.communicate()
        return d, {"name": os.path.basename(d), "error": "sweep timed out (the check did not finish)"}
    class P: pass
    p = P(); p.stdout, p.stderr = out, err
    line = [l for l in p.stdout.splitlines() if l.startswith("{")]
    if not line:
        return d, {"name": os.path.basename(d), "error": "no result: " + p.stderr[-300:]}
    return d, json.loads(line[-1])


missed = []
with cf.ThreadPoolExecutor(jobs) as ex:
    for d, r in ex.map(one, dirs):
        mp = os.path.join(d, "meta.json")
        m = json.load(open(mp))
        if "error" in r:
            print(f"{r['name']}: ERROR {r['error']}", flush=True)
            m["caught_by"] = {"error": r["error"]}
            missed.append(r["name"])
        else:
            caught = {}
            for run in r["runs"]:
                caught[run["prop"]] = {"tier": r["tier"], "exit": run["exit"], "signatures": run["signatures"], "secs": run["secs"]}
            m["caught_by"] = caught
            if suite == "1":
                m["builds"] = bool(r["build_ok"])
                m["suite_passes"] = bool(r["suite_ok"])
            own = caught.get(m["property"], {})
            ok = own.get("exit") == 1
            exp = m.get("expect", "caught")
            flag = "caught" if ok else "NOT CAUGHT"
            if exp == "equivalent":
                flag = "equivalent (not expected to be caught): exit %s" % own.get("exit")
            elif not ok:
                missed.append(r["name"])
            print(f"{r['name']}: build={r['build_ok']} suite={r['suite_ok']} {flag} " + "; ".join(f"{p}: exit {c['exit']} {c['signatures'][:3]}" for p, c in caught.items()))
        json.dump(m, open(mp, "w"), indent=1)

# kill matrix over everything stored
rows = []
for d in sorted(glob.glob(os.path.join(root, "seeded", "*-*"))) + sorted(glob.glob(os.path.join(root, "mutants", "*-*"))):
    mp = os.path.join(d, "meta.json")
    if not os.path.exists(mp):
        continue
    m = json.load(open(mp))
    cb = m.get("caught_by") or {}
    own = cb.get(m["property"], {})
    others = [p for p, c in cb.items() if p != m["property"] and isinstance(c, dict) and c.get("exit") == 1]
    sig = "; ".join(s.rsplit(" x", 1)[0] for s in own.get("signatures", [])[:3]) if isinstance(own, dict) else ""
    res = "caught" if isinstance(own, dict) and own.get("exit") == 1 else ("equivalent" if m.get("expect") == "equivalent" else "NOT CAUGHT")
    rows.append((os.path.relpath(d, root), m["property"], res, sig.replace("|", "\\|"), ",".join(others), (m.get("summary") or "")[:110].replace("|", "\\|").replace("\n", " ")))
with open(os.path.join(root, "KILLS.md"), "w") as f:
    f.write("# Stored property-breaking changes and what the checks report on them\n\n")
    f.write("Written by tools/sweep.py (quick tier unless stated in meta.json). `seeded/` = written by sub-agents that saw only the property text; `mutants/` = written with knowledge of the code.\n\n")
    f.write("| change | property | result | signatures reported by the property's check | also caught by | summary |\n|---|---|---|---|---|---|\n")
    for r in rows:
        f.write("| " + " | ".join(r) + " |\n")
    n = sum(1 for r in rows if r[2] == "caught")
    f.write(f"\n{n} of {len(rows)} caught; {sum(1 for r in rows if r[2]=='equivalent')} judged equivalent for the property.\n")
print("missed:", missed)
sys.exit(1 if missed else 0)
