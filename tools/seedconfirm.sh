#!/bin/bash
# usage: tools/seedconfirm.sh <Cxx> <N>   (reads /tmp/seed/<Cxx>/mutN.diff demoN_test.go metaN.json)
# Confirms a sub-agent's seeded change in a scratch worktree of /repo HEAD:
#   clean+demo passes; patched builds; patched full suite passes; patched demo fails.
# On success stores it under /verif/seeded/<Cxx>-<N>/.
set -u
export GOFLAGS=-mod=mod GOPROXY=off GOSUMDB=off GOTOOLCHAIN=local
ID=$1; N=$2; SRC=${SEED_SRC:-/tmp/seed}/$ID
PATCH=$SRC/mut$N.diff; DEMO=$SRC/demo${N}_test.go; META=$SRC/meta$N.json
WT=/tmp/mt/confirm-$ID-$N-$$
mkdir -p /tmp/mt
git -C /repo worktree add -q --detach "$WT" HEAD || exit 2
trap 'git -C /repo worktree remove --force "$WT" >/dev/null 2>&1' EXIT
DDIR=$(python3 -c "import json;print(json.load(open('$META')).get('demo_dir','.') or '.')")
DDIR=${DDIR#/}; [ -d "$WT/$DDIR" ] || DDIR=.
RUNRE=$(grep -ho 'func Test[A-Za-z0-9_]*' "$DEMO" | sed 's/func //' | paste -sd'|')
cp "$DEMO" "$WT/$DDIR/zz_seed_demo_test.go"
(cd "$WT/$DDIR" && go test -vet=off -count=1 -run "^($RUNRE)\$" . >/tmp/mt/c1.$$ 2>&1); r1=$?
APPLY=plain
if ! git -C "$WT" apply "$PATCH" 2>/dev/null; then
  APPLY=3way
  git -C "$WT" apply --3way "$PATCH" >/dev/null 2>&1 || { echo "$ID-$N: patch does not apply to HEAD"; exit 3; }
fi
git -C "$WT" add -N . >/dev/null 2>&1
git -C "$WT" diff HEAD -- . ':!*zz_seed_demo_test.go' > /tmp/mt/patch.$$.diff
(cd "$WT" && go build ./... >/tmp/mt/c2.$$ 2>&1); r2=$?
(cd "$WT/$DDIR" && go test -vet=off -count=1 -run "^($RUNRE)\$" . >/tmp/mt/c4.$$ 2>&1); r4=$?
rm "$WT/$DDIR/zz_seed_demo_test.go"
(cd "$WT" && go test -vet=off -count=1 ./... >/tmp/mt/c3.$$ 2>&1); r3=$?
echo "$ID-$N: apply=$APPLY clean-demo=$r1(want 0) build=$r2(want 0) suite=$r3(want 0) patched-demo=$r4(want !=0)"
if [ $r1 -eq 0 ] && [ $r2 -eq 0 ] && [ $r3 -eq 0 ] && [ $r4 -ne 0 ]; then
  D=/verif/seeded/$ID-$N; mkdir -p $D
  cp /tmp/mt/patch.$$.diff $D/patch.diff; cp "$DEMO" $D/demo_test.go
  python3 - "$META" "$D/meta.json" "$APPLY" "$DDIR" "$RUNRE" <<'PY'
import json,sys,subprocess
m=json.load(open(sys.argv[1]))
m["confirmed"]={"base_commit":subprocess.check_output(["git","-C","/repo","rev-parse","--short","HEAD"]).decode().strip(),
 "apply":sys.argv[3],"demo_dir":sys.argv[4],
 "ran":["clean tree + demo: go test -run '^(%s)$' -> pass"%sys.argv[5],"patched: go build ./... -> ok","patched: go test -vet=off -count=1 ./... (without demo) -> pass","patched + demo -> FAIL"]}
json.dump(m,open(sys.argv[2],"w"),indent=1)
PY
  echo "  stored in $D"
else
  echo "  NOT CONFIRMED; logs:"; tail -n 5 /tmp/mt/c1.$$ /tmp/mt/c2.$$ /tmp/mt/c3.$$ /tmp/mt/c4.$$ | cut -c1-200
fi
rm -f /tmp/mt/c?.$$ /tmp/mt/patch.$$.diff
