#!/usr/bin/env python3
"""Regenerates /verif/MANIFEST.json from the table below (kept valid at all times)."""
import json, os, subprocess, sys
ROOT = os.path.dirname(os.path.dirname(os.path.abspath(__file__)))

# id -> (category, technique, level text, level note, design ref)
CHECKS = {}
def check(id, technique, text, note, category="exploration", ref=None):
    CHECKS[id] = dict(technique=technique, text=text, note=note, category=category, ref=ref or ("DESIGN.md §2 " + id))

NOT_BUILT = {}

exec(open(os.path.join(ROOT, "tools", "manifest_table.py")).read())

all_ids = [json.loads(l)["id"] for l in open(os.path.join(ROOT, "properties.jsonl")) if l.strip()]
hook_commits = [l.strip() for l in open(os.path.join(ROOT, "tools", "hook_commits.txt")) if l.strip()] if os.path.exists(os.path.join(ROOT, "tools", "hook_commits.txt")) else []
m = {
    "version": 1,
    "setup_cmd": "cd /verif && GOFLAGS=-mod=mod GOPROXY=off GOSUMDB=off GOTOOLCHAIN=local go build -tags verif -o bin/vcheck ./cmd/vcheck && GOFLAGS=-mod=mod GOPROXY=off GOSUMDB=off GOTOOLCHAIN=local go build -race -tags verif -o bin/vcheck-race ./cmd/vcheck",
    "hooks": {
        "guard": "verif",
        "enable": "go build -tags verif (run.sh builds the harness, which imports /repo through a replace directive, and /repo/cmd/gedcom with -tags verif; -race added for C11 and C19)",
        "baseline_off_cmd": "cd /repo && GOFLAGS=-mod=mod GOPROXY=off GOSUMDB=off go test -json -vet=off -count=1 -timeout 25m ./...",
        "source_commits": hook_commits,
        "add_only": True,
    },
    "engines": [
        {"name": "vcheck", "path": "/verif/cmd/vcheck", "serves_properties": sorted(CHECKS),
         "kind_free_text": "Go supervisor + child worker processes running the real gedcom code from /repo under generated workloads; monitors = reference-model, metamorphic and invariant oracles, crash attribution through a per-case marker, per-case CPU allowance (non-termination) and goroutine-state analysis (calls and child processes that are blocked for ever), Go race detector logs (C11, C19), event logs from build-tagged hooks"},
    ],
    "checks": [],
    "notes": "Single entry point ./run.sh <id> <quick|thorough> [--replay file]; rebuilds from /repo's working tree on every invocation. Exit 0 held (KNOWN-FINDING lines possible), 1 violation, 2 build/harness error or coverage floor not met, 3 too many inconclusive cases. Known findings: /verif/KNOWN_FINDINGS.jsonl.",
    "not_applicable": [],
}
for id in all_ids:
    if id in CHECKS:
        c = CHECKS[id]
        m["checks"].append({
            "property_id": id,
            "quick_cmd": "./run.sh %s quick" % id,
            "thorough_cmd": "./run.sh %s thorough" % id,
            "evidence_file": "/verif/evidence/%s.json" % id,
            "replay_cmd_template": "./run.sh %s --replay {path}" % id,
            "engine": "vcheck",
            "level_claimed": {"category": c["category"], "text": c["text"], "design_ref": c["ref"]},
            "level_note": c["note"],
            "technique": c["technique"],
        })
    else:
        m["not_applicable"].append({"property_id": id, "reason": NOT_BUILT.get(id, "check not built yet in this session (planned in DESIGN.md §2); nothing is claimed for it")})
json.dump(m, open(os.path.join(ROOT, "MANIFEST.json"), "w"), indent=1)
try:
    import jsonschema
    jsonschema.validate(m, json.load(open("/root/.vp/MANIFEST.schema.json")))
    print("MANIFEST.json valid: %d checks, %d not_applicable" % (len(m["checks"]), len(m["not_applicable"])))
except ImportError:
    print("jsonschema not available; wrote MANIFEST.json unvalidated")
