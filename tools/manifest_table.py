check("C05",
  "runtime monitoring: exhaustive differential oracle (independent integer-day calendar) over every date the API can represent",
  "Runs the real Date.Time/Years/IsBefore/IsAfter/DateRange.Duration on every day of years 1..9999 (thorough; 420 stratified years in quick), every month-year and year-only date, every day->next-day pair and every (first day, partial, last day) triple, and compares with an independent proleptic-Gregorian day-number calendar. Thorough is exhaustive over the finite space the property quantifies over.",
  "Trusted: ref/cal.go (self-inverse check on every day). Instants compared as Unix seconds+nanoseconds. Random part: ordered pairs of disjoint periods (32k quick / 1M thorough).")
