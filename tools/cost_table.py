#!/usr/bin/env python3
"""usage: tools/cost_table.py <runall-quick.log> <runall-thorough.log>
Replaces the table between the COST_TABLE markers in DESIGN.md with the wall
times, case counts and distinct non-trivial counts of the two runs."""
import re, sys
rows = {}
for tier, path in (("quick", sys.argv[1]), ("thorough", sys.argv[2])):
    for line in open(path):
        m = re.match(r"(C\d\d) exit=(\d+) (\d+)s .*?cases=(\d+) evaluations=\d+ distinct_nontrivial=(\d+) violations=(\d+) known=(\d+) inconclusive=(\d+)", line)
        if m:
            rows.setdefault(m.group(1), {})[tier] = m.groups()[1:]
out = ["<!-- COST_TABLE -->", "| property | quick: wall | cases | distinct non-trivial | thorough: wall | cases | distinct non-trivial | exit (q/t) |", "|---|---|---|---|---|---|---|---|"]
tq = tt = 0
for pid in sorted(rows):
    q = rows[pid].get("quick"); t = rows[pid].get("thorough")
    def f(x): return (f"{int(x[1])} s", f"{int(x[2]):,}", f"{int(x[3]):,}") if x else ("-", "-", "-")
    tq += int(q[1]) if q else 0; tt += int(t[1]) if t else 0
    out.append("| " + " | ".join((pid,) + f(q) + f(t) + (f"{q[0] if q else '-'}/{t[0] if t else '-'}",)) + " |")
out.append(f"| total | {tq} s ({tq/60:.1f} min) | | | {tt} s ({tt/60:.1f} min) | | | |")
out.append("<!-- /COST_TABLE -->")
p = "/verif/DESIGN.md"
s = open(p).read()
block = "\n".join(out)
if "<!-- COST_TABLE -->" in s:
    s = re.sub(r"<!-- COST_TABLE -->.*?<!-- /COST_TABLE -->", lambda m: block, s, flags=re.S)
else:
    s = s.replace("COST_TABLE", block, 1)
open(p, "w").write(s)
print(block)
