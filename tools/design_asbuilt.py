import re
p='/verif/DESIGN.md'; s=open(p).read()
blocks={}
blocks['C01']="""**As built / outcome.** As planned; the largest exhaustive strata are 14
shapes x 8^4 x 2 (quick, <= 4 nodes) and 42 shapes x 8^5 x 2 (thorough, <= 5
nodes). What the API cannot build as asked (a nested `INDI`/`FAM`, a role node
with a pointer) is replaced by a custom tag in the spec and counted
(`substituted-specs`). Coverage floors: all 100 depth values 0..99 and every
registered tag exercised. *Found*: `encoder-output-rejected:level>=10` —
**fixed** in `cb25f97` (`(\\d)` -> `(\\d+)` in the line pattern). *Seeded changes
caught*: C01-1 (family context reset by every non-FAM root record: role nodes
after another record decode as plain nodes / panic), C01-2 (level 10 written
as `0`).
"""
blocks['C02']="""**As built / outcome.** As planned (20,000 / 200,000 streams, first half
constructive, second half mutated; 4 option combinations each). An extra
counter reports accepted lines that a hand-written strict line grammar would
not accept (`accepted-line-outside-hand-grammar`), purely as an observation.
*Found*: with `AllowMultiLine` an unparsable line after an `INDI`/`FAM` record
line is appended to the record's (otherwise value-less) node value, which the
encoder does not write, so `enc(dec(x))` is not a normal form —
**known finding** `record-node-with-value:multiline=true` (what a continuation
line after a record line should mean is a design decision for the maintainer;
the multi-line leniency is documented behaviour). Consequently constructive
streams never put junk lines directly after record lines, and the fixpoint
check is skipped (and counted) for multi-line values, whose embedded line
breaks are outside the encoder's alphabet. Since round 4 value edges also
carry white space that is not ASCII (NBSP, U+3000, U+2003, U+0085): "its
value trimmed" is read as `strings.TrimSpace` does it, which supersedes the
plan's "ASCII space/tab only". A false alarm of the hand parser was
corrected (§8). *Seeded changes caught*: C02-1 (open-node stack not truncated
on dedent: a later over-deep line attaches to a closed node), C02-2 (greedy
xref group: `0 @A@ NOTE x @ y` mis-split).
"""
blocks['C03']="""**As built / outcome.** As planned; the adversarial list has 510 enumerated
inputs, the random and mutation cases run 50 inputs each (600 / 14,000
cases), every input under all four option combinations. Thorough adds the
native fuzzing target `fuzz/c03_fuzz_test.go` (`-fuzztime 2000000x`, an
execution count) with the same verdict function; a crasher it finds is written
under `replays/C03/` like any other. *Found*: `panic:cannot create Husband
without a family@needsFamily` — **fixed** `b1631ae` (decode error naming the
line); `panic:index out of range@(*Decoder).Decode` (first line at level > 0
with `AllowInvalidIndents`) — **fixed** `f012f08`. *Seeded changes caught*:
C03-1 (nil `previousNode` with `AllowMultiLine` when the first line is junk),
C03-2 (level >= 2^63 becomes a negative indent). Since round 2 the check also
drives the decoder through the real CLI (`gedcom diff -allow-multi-line
-allow-invalid-indents`, the file against itself): the outcome class must be
the library's under the same options (seed C03-4).
"""
blocks['C04']="""**As built / outcome.** 16 keyword spellings x 4 case variants x 3 shapes x 23
month spellings with sampled numerics (95 k sentences quick), ranges, and 4.7 k
near misses. *Found and repaired* (three separate commits): keywords not
followed by a literal `.` lost their constraint — **fixed** `d42a993` (keywords
quoted, tried longest first); a date with an unknown month word was accepted
as the bare year — **fixed** `ebed05d`; `DateRange.String()` printed only the
start when the ends were equal under the fuzzy `Equals` — **fixed** `892717a`
(`Is` instead of `Equals`). The second fix first exposed a regression of its
own (`after 1900` matched the `aft` alternative) which this check reported;
the fix was amended before it was kept. Two entries of the near-miss list
were themselves valid sentences and were removed (§8). *Seeded changes
caught*: C04-1 (day `0`/`00` skips calendar validation), C04-2 (optional
spaces around the range separator: `to` matches inside `October`).
"""
blocks['C05']="""**As built / outcome.** One case = one calendar year (all days with both
range-end flags, the 12 month-year dates, the year-only date, successor pairs
incl. the roll-over, containment triples); quick = 420 stratified years + 16
batches of 2,000 random ordered pairs of disjoint periods; thorough = all 9,999
years (`exhaustive: true` for the per-date laws) + 1 M pairs. The reference
calendar is cross-checked against itself (`Civil(DayNumber(x)) == x`) on every
day. *Found*: `end-bound:period-starting-at-zero-time` — **fixed** `1fc022e`
(`safeParse` reports failure explicitly). *Seeded changes caught*: C05-1
(`Years()` memoised under a colliding key: `31 Jan` vs `Feb`), C05-2
(`IsBefore/IsAfter` through a day number that forgets leap days).
"""
blocks['C06']="""**As built / outcome.** As planned; the 253 x 253 window is evaluated twice —
on ranges built as structs and on ranges parsed from `Bet. X and Y` — plus all
granularity pairings around Feb 1900/2000 and year ends, plus 1,000 random
pairs per random case with forced endpoint coincidences (621 k comparisons
quick). All 13 relations are a coverage floor. *Found*: `self-not-equal:
a=b=c=d` and the converse failure for a single-day argument at the receiver's
end — **fixed** `913f83b` (`compareDatesForLetter` prefers "equals end" for
the end bound). *Seeded changes caught*: C06-1 (30-day-month ordinal: 31st ==
1st of next month), C06-2 (`Invalid` for forward ranges with mixed
granularity).
"""
blocks['C07']="""**As built / outcome.** 10,000 / 60,000 trees; the first five cases of every
run are pinned witnesses of the listed known findings. The symmetry
classifier names the node kinds whose own `Equals` is asymmetric
(`asymmetric-equality:<kinds>`), or `matching-only` when none is (i.e. the
child matching itself would be at fault); permutation failures are attributed
to `asymmetric-equality` or `non-transitive-equality` of the sibling kinds
after delta-minimising the tree. *Found*: `reflexive-on-copy:_UID(malformed)`
— **fixed** `b0259a5` (values that do not parse are compared verbatim).
**Known findings** (documented behaviour of the `Date.Equals` matrix, not a
small patch): `symmetry:asymmetric-equality:DATE(before|after)`,
`permutation:asymmetric-equality:DATE(before|after)` and
`permutation:non-transitive-equality:DATE(...)`; any other kind in those
signatures, `matching-only`, and every other law stay violations. *Seeded
changes caught*: C07-1 (same-position fast path matches one right child
twice -> `symmetry:matching-only` and an undetected edit), C07-2 (`filter`
drops the children of `SEX` nodes -> `copy-text`).
"""
blocks['C08']="""**As built / outcome.** 12,000 / 200,000 pairs in the four planned strata. The
coverage check is a backtracking search (an input node may be represented by
any entry under an entry representing its parent), so folded equal siblings
never alarm. The all-two-sided demand in stratum (b) is made only when the
harness has checked that `Equals` is symmetric and transitive on the nodes
present (2,920 of 3,000 such pairs in quick). *Found*: `inputs-modified:Sort`
— **fixed** `a564c9f` (`isLessThan` works on a detached flattened copy; the
first attempt, comparing `Left/Right` directly, changed the sort order pinned
by `TestNodeDiff_Sort` and was rejected). *Seeded changes caught*: C08-1
(wrap-around scan misses the entry matched last -> a two-sided node reported
one-sided twice), C08-2 (`Tag()` through `RightNode()` re-attaches children
to the right input).
"""
blocks['C09']="""**As built / outcome.** 20,000 / 400,000 cases alternating `MergeNodes` and
`MergeNodeSlices`; role nodes (`HUSB/WIFE/CHIL` inside `FAM`) were added to
the workload after the C10 regression below. Representation is "kind
-specific equality in either direction, or the same line" (the first version
demanded `Equals`, which is wrong for `EVEN`/`RESI` whose equality covers
their subtree — corrected, §8). *Found*: `shared-node:MergeNodes:right` —
**fixed** `806509f` (`DeepCopy` of unmatched right children). That fix made
`MergeDocumentsAndIndividuals` panic on families (`cannot create Child
without a family`), which C10 reported at once; the cause — `DeepCopy` cannot
copy a role node on its own — is repaired separately in `33651d3`, placed
before the merge fix. *Seeded changes caught*: C09-1 (leaf short-cut in
`EqualityMergeFunction` drops the right subtree), C09-2 (empty left list
returns the caller's own right nodes).
"""
blocks['C10']="""**As built / outcome.** 600 / 12,000 pairs in 8 stratified scenarios x 5
configurations; the default configuration also through the query function, every 10th
pair through the real CLI (`gedcom query -gedcom a -gedcom b
'MergeDocumentsAndIndividuals(Document1, Document2)'`). All verdicts are
computed on a fresh decode of the output text. *Found*: (1)
`dangling:ref-to-pointer-of-record-merged-into-a-different-pointer` and (2)
`ambiguous:pointer-clash-between-records-of-the-two-inputs` — **known
findings** (no pointer rewriting exists; designing it is not a small patch),
each matched with the entry point (`library|query|cli`) as suffix; (3)
`duplicated-individual:shares-unique-id` — **fixed** by the C11 repair
`86b343e`. Every other cause (`dropped-individual`, `duplicated-individual`,
`lost-fact`, `dangling:other`, `wrong-target`, `undecodable`, panics) is a
violation. *Seeded changes caught*: C10-1 (`sentA` for `sentB` in
`createPointerJobs`: a right person merged twice), C10-2 (skip the deep merge
for "exact" matches: facts of the right original lost).
"""
blocks['C11']="""**As built / outcome.** 160 / 3,000 list pairs, each compared under 3 seeded
schedule perturbations (the hook does nothing / `Gosched` / sleeps 10–300 µs
at the `cmp.*` points), `Jobs` x `GOMAXPROCS` rotating with the case index;
every 5th case also runs `gedcom-race diff` on the two files. The
interleaving floor is evaluated on the aggregate (distinct orders of
`cmp.process.begin` by worker; 100+ distinct orders in a quick run). GORACE is
`halt_on_error=0 exitcode=0 history_size=3 log_path=…`; the supervisor parses
every log and signs a report by its racy write site(s). *Found and repaired*:
one right individual matched with every left individual sharing its unique id
— **fixed** `86b343e` (`sentB.LoadOrStore` claim); races on every lazy cache —
**fixed** `2bd13ef` (a mutex per cache); race on the global children-by-tag
cache variable — **fixed** `d4a88d8` (atomic value); the diff page's shared
stateful options — **fixed** `2bdfe93`; `gedcom diff` reading the comparisons
while they are assigned — **fixed** `54866d3`. Contrary to the plan no race
is left as a known finding: after these commits the library workload and
`gedcom-race diff -jobs N` are silent, so *any* race report is a violation.
*Seeded changes caught*: C11-1 (`sentA` for `sentB`: right individual matched
twice); dropping the `DateNode` mutex again is reported as
`race:write@(*DateNode).DateRange…` within a quick run. Seed C11-2 is absorbed
by the repaired tree and was dropped (§3).
"""
blocks['C12']="""**As built / outcome.** As planned, with the exhaustive string strata run on
unordered pairs (symmetry is checked on each) under three (boost threshold,
prefix size) settings, a third alphabet `{a,b,space}` through the cleaning
front end, a 400-date grid with translations and monotonicity triples, and
FG-based individual/list/family/surrounding comparisons under default and
random legal options. *Found*: nothing on the pinned tree. A false alarm was
corrected: "a list vs. its own permutation scores 1" was first evaluated with
the *same node objects* on both sides, which `IndividualNodes.Similarity` does
not support (one `found` set for both sides); the other side is now a second
decode (§8). *Seeded changes caught*: C12-1 (missing parents on the argument
side score 0 instead of 0.5 -> asymmetry), C12-2 (early exit after a perfect
match -> order dependence of list similarity).
"""
blocks['C13']="""**As built / outcome.** As planned: 6,561 + 819 shorter exhaustive histories
(all lengths 1..4) + 300 random in quick; lengths 1..5 + 6,000 random in
thorough; 16 edit and 12 read operations; 7.8 M view comparisons in a quick
run. `NodesWithTag` is compared for every node x every tag *ever used* in the
history (deleted tags included), and the per-family battery includes the
individuals behind `Husband()/Wife()`. *Found and repaired*:
`impure:text:Warnings` — **fixed** `2198841` (plain walk instead of the
copying `Filter`); `leaked-removed` after `DeleteNode`/`SetNodes` — **fixed**
`8d6f4a7`; stale `Families/Spouses/Husband/Wife/NodeByPointer` after
`SetHusband/SetWife/AddChild/AddFamily/Document.DeleteNode` — **fixed**
`5e2be83` (cache generation stamp); `DeleteNodesWithTag` skipping the node
after each deleted one — **fixed** `07cbee7`. No known finding remains.
*Seeded changes caught*: C13-1 (no cache reset when the first child is added
-> `missed-added`), C13-2 (`Parents()` filters the cached families slice in
place -> `impure:view:*` after a read). The random histories also put a previously
deleted root record back (`Document.AddNode(deleted FAM again)`), added after
mutant `C13-m3` survived.
"""
blocks['C14']="""**As built / outcome.** 29 fault classes (the planned 22 plus living people,
events without details, odd places, names like pages, and — after round 2 —
no dates or events anywhere, several marriages with unresolvable partners,
cycles of people without any date); quick = the empty
set, all singles, all pairs and a seeded quarter of the triples (979 accepted
files), thorough = all 2,952 subsets of up to 3 with 4 instances each. Per file the
real binary runs `warnings`, three `publish` configurations (rotating
`-living` mode x page-group subset x `-jobs`), `diff` and `query`, and the
in-process twin renders every page through `Publisher.Files` (69 k pages in
quick). **Hang rule (changed from the plan)**: each CLI process runs under
`ulimit -t` (CPU seconds, not wall clock): a process that exhausts its CPU
allowance is a violation `<command>:busy-loop-cpu-limit` (a busy loop makes no
progress by definition of the measure; the in-process twin is covered by the
worker's own CPU allowance, §1.2), while the wall-clock watchdog remains
inconclusive unless the goroutine dump proves a deadlock. Crash detection
requires exit status 2 *and* a line starting with `panic: ` or `fatal error: `,
or death by signal (matching quoted error text was a false alarm, §8).
*Found and repaired*, one commit per call site: `valueToPointer("")` —
`0e69987`; unchecked role-node type assertions — `e29440d`;
`ChildNodes.Individuals` on a missing child — `ca89b74`; `-living hide`
header `indexLetters[0]` — `3f1c24b`; individual page without `NAME` —
`038cf18`; `gedcom diff` nil dereference from the unsynchronised result —
`54866d3`. No known finding remains. *Seeded changes caught*: C14-1
(`EventDate` indexes a filtered slice), C14-2 (`getUniqueKey` spins on a
person/place key collision -> `nontermination`).
"""
blocks['C15']="""**As built / outcome.** 27-token alphabet (incl. an unbalanced quote); quick:
all sequences up to length 3 + 2,000 grammar-generated + mutations + random
bytes + 200 CLI runs (71 k queries); thorough: length 4 (551 k sequences) and
100 k generated. Each query is evaluated on 1 and 2 freshly decoded documents
and every value is written by all five formatters. *Found and repaired*:
stack overflow on self-referential variables — **fixed** `afa4b0e` (depth
guard); reflection panics in ill-typed pipelines — **fixed** `39c803e`
(`Engine.Evaluate` converts a panic into an error); `gedcom.IsNil` panicking
on non-nillable kinds (gedcom/html formatters on every scalar) — **fixed**
`c623fbd`; csv formatter on nil elements and non-string map keys — **fixed**
`a0ffac2`. No known finding remains. *Seeded change caught*: C15-1
(unterminated string token -> slice bounds panic in the parser). Seed C15-2 is
absorbed by the `Evaluate` recover and was dropped.
"""
blocks['C16']="""**As built / outcome.** 59-value operand pool (all 3,481 ordered pairs x 6
operators as real queries) + 250 / 3,000 generator cases of ~40 queries each
over a hand-written table of ~50 accessors with Go closures. When the Go API
itself panics on a generated pipeline (24 times in quick: nil receivers), the
query is required to fail too rather than to match. *Found*: trichotomy with
NaN spellings — **fixed** `d5d03c3`; an accessor did not map over a slice
whose elements are interface values (`.Nodes | .Value`,
`NodesWithTagPath(..) | .String`) — **fixed** `0c98ce8`. **Known finding**
`*:after-First-or-Last-of-empty-list`: `First/Last` of a nil slice yield nil
and every later stage treats nil as one item (`… | First(3) | Length` is 1);
returning an empty slice instead breaks q tests that pin nil -> nil, so it is
recorded, keyed on "a `First`/`Last` stage whose input list was empty"; the
same laws on non-empty inputs stay violations. Three generator mistakes were
corrected (§8). *Seeded changes caught*: C16-1 (`Combine` appends into the
backing array of a `First(k)` slice), C16-2 (accessor mapping skips nil
elements).
"""
blocks['C17']="""**As built / outcome.** 40 / 600 documents; quick publishes 12 page-group
masks per document (all-on, each single group off, all-off, 4 rotating) x
{hide, placeholder} x jobs {1,4}, thorough all 64 masks. Marker search is
case-insensitive over names and bytes for every name token owned *only* by
living people; each document is also published in `show` mode first in the
same process (so a cache filled under `show` cannot leak into `hide` unseen).
*Found and repaired*: living surnames on `surnames.html` — **fixed** `56a8790`
(surname list computed per publish from the published individuals; this also
removed the process-wide cache behind C19's stale-across-publishes finding);
place pages of living people under `hide` — **fixed** `876cb18`; the `hide`
crash is C14's `3f1c24b`. No known finding remains. *Seeded changes caught*:
C17-1 (`PageIndividual` memoised ignoring visibility: page name of a living
person leaks after a `show` publish), C17-2 (name component treats a buried
but not dead person as dead in placeholder mode).
"""
blocks['C18']="""**As built / outcome.** The benign twin replaces `" & ' < >` by `! % ( ; ?` —
HTML-neutral characters chosen **order-isomorphic in ASCII** to the
metacharacters, and taint numbers are zero-padded to a fixed width, so sorting
and grouping are identical in both renderings and pages can be paired by
position (the first version used letters and variable-width numbers, which
changed sort orders: a false alarm, §8). Sinks covered: every page of the
site in three visibility modes, `html.DiffPage` (both sorts, `HideEqual`
on/off), `q.HTMLFormatter` on 12 queries, `Warnings.WriteHTMLTo`; 7.5 k page
pairs in quick. *Found*: unescaped values in attribute values (`core.Tag`),
anchor names (`core.Anchor`) and table heads (`core.TableHead`) — **fixed**
`9f53c28` (`escapeAttribute` leaves `'` alone because a golden test pins an
`onclick` handler with single quotes). *Seeded changes caught*: C18-1
(`SetEscapeHTML(false)` in the pretty-JSON formatter used as the HTML
formatter's fallback), C18-2 (`NewHTML` for the marriage-date cell of the
families page).
"""
blocks['C19']="""**As built / outcome.** Claimed at level `fault_enumeration`: for every
document the failing writer is injected at **every** file index k (capped at
the first 40 files of a site in quick, 150 in thorough) with jobs = 1, and for jobs 2 and 8 at the first two, the
last and a rotating sample of the indices (every 8th in quick, every 3rd in
thorough) — about 1,900 injections in a quick run. The determinism differential compares 3
repetitions, jobs {1,2,8,16}, perturbed schedules (`pub.*` hooks) and
publish(A)-then-publish(B) against B alone; the planned comparison against a
*separate process* was dropped (each worker batch already is a fresh process
with its own map-iteration seed, and the CLI comparison every 3rd case gives a
second process). The `strace` injection was not built (the fault-enumerating
writer covers the same contract at the API boundary where it is stated).
*Found and repaired*: source page named after the raw pointer (path escape)
— **fixed** `e14ac3f`; links to never-generated letter pages — **fixed**
`ca9a809`; person/place key collisions, nil places map for early pages and
map-order dependence for same-key places — **fixed** `1acb6cc`; names equal to
fixed pages — **fixed** `b53df32` (its first version looped forever on
`individuals-` prefixed names, which this check reported as watchdog
inconclusives, and was corrected before it was kept); stale surnames across
publishes — `56a8790`. **Known finding** `broken-link:*:individuals-group-off`:
with `-no-individuals` the other groups still link to individual and letter
pages (the linking components do not know the page-group options — a design
change, not a small patch); broken links with the individuals group *on* stay
violations. *Seeded change caught*: C19-1 (a later successful write resets
the shared error: `Publish` returns nil after a failed write with jobs > 1 ->
`fault:returned-nil`). Seed C19-2 no longer applies to the repaired tree.
The first thorough run (800 documents) reported collisions that the quick
tier had not: two `INDI` records with one pointer shared a page chosen by map
order — **fixed** `c756233`; making the remaining hostile features fixed
strata then showed that source pages collide (`@../k@`/`@-k@`, duplicate
source pointers, a source pointer equal to a person's page key) — **fixed**
`f30cb35` (unique names as for individuals and places). The generator now has
15 hostile features, each the *first* feature of at least two documents of
every quick run.

"""
blocks['C20']="""**As built / outcome.** 2,000 / 30,000 documents; expected tuples are compared
as multisets with the typed warning structs, with the names mentioned in
`String()`, under 3 permutations of records and children, and every 10th case
with the stdout of the real `gedcom warnings`. Floors: every kind (and both
`young`/`old`) expected >= 30 times and a near-threshold non-occurrence of each
>= 30 times. *Found*: nothing beyond C13's `Warnings()` impurity (C20 works on
fresh decodes). Two generator mistakes were corrected (§8). *Seeded changes
caught*: C20-1 (age no longer trimmed at a burial-only death estimate: a person
buried at 60 is "too old" today), C20-2 (`break` for `continue` in the sibling
pair scan: pairs missed depending on child order).
"""

# what rounds 5 and 6 of the sub-agent changes added to each check (see §3.2e/f)
later={
'C05':"Since round 5 every day, month-year and year is also read from text (three spellings) and must have the bounds and `Years()` of the directly built date; consecutive days are also compared through `DateRange`, `DateNode`, `DateNodes.Minimum/Maximum`.",
'C06':"Since round 5 the operands also carry constraint words (about/before/after), which do not change the days of a period.",
'C07':"Since round 5 every third tree is also compared by 8 goroutines at once on freshly decoded nodes (`parallel-evaluation-differs`).",
'C08':"Since round 5 a fifth workload, `wide-facts`: parents with 12-36 pairwise different children, residences and events that share their line, events with several `TYPE` lines.",
'C10':"Since round 5 dangling references are signed by the input they come from; the listed finding is about references of the right input only.",
'C11':"Since round 5 scenario `duplicated-unique-ids` also has merged records with two identifiers that lead to two records of the other side.",
'C12':"Since round 5: strings on both sides of the 64-byte boundary, weights of exactly 0, the weighted similarity on synthetic components.",
'C13':"Since round 5 the alphabet has the edit 'add an individual under a taken pointer, delete one of the two'.",
'C14':"Since round 5 a 30th fault class: every other legal event and attribute tag under people and families.",
'C15':"Since round 5: ill-typed stages evaluated once per item (`Only`, objects, `Combine`) over lists of up to 60+ items.",
'C16':"Since round 5: law `inlining-per-item` (variables looked up once per item), every eighth document has 150 people.",
'C18':"Since round 5: stray bytes that are not valid UTF-8 in front of markup characters; documents from all-dead to all-living.",
}
later6={
'C01':"Since round 6: 12 different documents are written and read back by 8 goroutines at once (every tenth random case).",
'C02':"Since round 6: the normal form is demanded for values with line breaks too; 12 different streams decoded by 8 goroutines at once.",
'C03':"Since round 6: the same bytes through `NewDocumentFromGEDCOMFile` and `NewDocumentFromString` (entry-point differential), inputs that begin like other file formats, memory allowance per worker.",
'C04':"Since round 6: the real days around every near miss are parsed in the same process (before or after it); fresh sentences parsed by 8 goroutines at once.",
'C06':"Since round 6: one operand read from text and the other built; fresh ranges compared by 8 goroutines at once.",
'C07':"Since round 6: several `TYPE` lines under events; every record of a document with placeholder records copied (`source-document-modified-by-copy`).",
'C08':"Since round 6: one in 16 independent pairs has roots of different kinds.",
'C10':"Since round 6: ninth scenario `families-renumbered-only`; every reference line of the output must resolve; every second query-path case re-uses one compiled query; the listed finding is about references to individuals only.",
'C11':"Since round 6: every seventh pair compares parts of the documents; results may hold individuals of the compared lists only.",
'C12':"Since round 6: scores asked by 8 goroutines at once of individuals nobody has looked at.",
'C13':"Since round 6: every filter function (and `FilterFlags.Filter`) applied to live nodes; `AddName` repeats existing names with lines of their own.",
'C14':"Since round 6 a 31st fault class: long values without spaces.",
'C15':"Since round 6: queries that declare variables named like the engine's `DocumentN`.",
'C16':"Since round 6: law `length-of-a-non-list`.",
'C18':"Since round 6: combining marks at the start of values; every tenth document has 28-40 people.",
'C19':"Since round 6: nameless people with hostile pointers, several nameless people.",
}
for k,v in later6.items():
    later[k]=(later.get(k,"")+" "+v).strip()
for k,v in later.items():
    blocks[k]=blocks[k].rstrip("\n")+"\n"+v+"\n"
ids=sorted(blocks)
for i,pid in enumerate(ids):
    # find start of this section and start of next
    m=re.search(r'^### %s — .*$'%pid, s, re.M)
    assert m, pid
    nxt=re.search(r'^(### C\d\d — |---------------------------------------------------------------------------\n## 3\.)', s[m.end():], re.M)
    assert nxt, pid
    pos=m.end()+nxt.start()
    if '**As built / outcome.**' in s[m.end():pos]:
        # replace existing
        a=s[m.end():pos].index('**As built / outcome.**')+m.end()
        s=s[:a]+blocks[pid]+"\n"+s[pos:]
    else:
        s=s[:pos]+blocks[pid]+"\n"+s[pos:]
open(p,'w').write(s)
