#!/bin/bash
# usage: tools/seedtest.sh <Cxx> <patch.diff> [tier] [extra props...]
# Applies a seeded change to a scratch worktree of /repo HEAD, runs the check
# against it (evidence/replays redirected to a scratch dir), removes the worktree.
set -u
ID=$1; PATCH=$(readlink -f "$2"); TIER=${3:-quick}; shift 3 2>/dev/null || shift $#
PROPS="$ID $*"
WT=/tmp/mt/$ID-$(basename "$PATCH" .diff)-$$
mkdir -p /tmp/mt
git -C /repo worktree add -q --detach "$WT" HEAD || exit 2
if ! git -C "$WT" apply "$PATCH" 2>/dev/null; then
  if ! git -C "$WT" apply --3way "$PATCH" 2>/tmp/mt/apply.$$.err; then
    echo "PATCH DOES NOT APPLY to current HEAD: $(head -3 /tmp/mt/apply.$$.err)"; git -C /repo worktree remove --force "$WT"; exit 3
  fi
fi
OUT=/tmp/mt/out-$$; mkdir -p $OUT
for P in $PROPS; do
  VERIF_REPO="$WT" VERIF_OUT="$OUT" /verif/run.sh $P $TIER > $OUT/$P.log 2>&1
  rc=$?
  echo "== $P on $(basename $PATCH): exit=$rc  $(grep -c '^VIOLATION' $OUT/$P.log) violation lines"
  grep -E '^\s+\[' $OUT/$P.log | cut -c1-220 | head -${SEED_SHOW:-4}
  tail -1 $OUT/$P.log | cut -c1-200
done
git -C /repo worktree remove --force "$WT"
rm -rf "$OUT" /verif/bin/*-$(echo "$WT" | cksum | cut -d' ' -f1) /verif/.scratch/go-*.mod /verif/.scratch/go-*.sum 2>/dev/null
exit 0
