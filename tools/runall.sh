#!/bin/bash
# usage: tools/runall.sh [quick|thorough] [ids...]   (VERIF_SEED honoured)
TIER=${1:-quick}; shift
IDS=${*:-C01 C02 C03 C04 C05 C06 C07 C08 C09 C10 C11 C12 C13 C14 C15 C16 C17 C18 C19 C20}
cd "$(dirname "$0")/.."
mkdir -p .scratch
for id in $IDS; do
  start=$(date +%s)
  ./run.sh $id $TIER > .scratch/runall-$id.log 2>&1; rc=$?
  echo "$id exit=$rc $(($(date +%s)-start))s  $(grep -c '^VIOLATION' .scratch/runall-$id.log) viol  $(grep -c '^KNOWN-FINDING' .scratch/runall-$id.log) known | $(tail -1 .scratch/runall-$id.log | cut -c1-150)"
  if [ $rc -ne 0 ]; then grep -E '^\s+\[|FLOOR|HARNESS|BUILD' .scratch/runall-$id.log | cut -c1-300 | head -8; fi
done
