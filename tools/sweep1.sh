#!/bin/bash
# usage: tools/sweep1.sh <dir with patch.diff + meta.json> [tier]
# Applies the change to a scratch worktree of /repo HEAD, checks that it builds
# and keeps the repository suite green, runs the check of its property (and any
# "also" properties named in meta.json) against it, prints one JSON line and
# removes the worktree. Nothing is written to /repo or to /verif/evidence.
set -u
export GOFLAGS=-mod=mod GOPROXY=off GOSUMDB=off GOTOOLCHAIN=local
ROOT=$(dirname "$(dirname "$(readlink -f "$0")")")
D=$(readlink -f "$1"); TIER=${2:-quick}
NAME=$(basename "$D")
PROPS=$(python3 -c "
import json,sys
m=json.load(open('$D/meta.json'))
print(' '.join([m['property']]+m.get('also',[])))")
WT=/tmp/mt/sw-$NAME-$$
OUT=/tmp/mt/swout-$NAME-$$
mkdir -p /tmp/mt "$OUT"
git -C /repo worktree add -q --detach "$WT" HEAD || { echo "{\"name\":\"$NAME\",\"error\":\"worktree\"}"; exit 0; }
cleanup() {
  git -C /repo worktree remove --force "$WT" >/dev/null 2>&1
  rm -rf "$OUT" "$ROOT"/bin/*-$(echo "$WT" | cksum | cut -d' ' -f1) "$ROOT"/.scratch/go-$(echo "$WT" | cksum | cut -d' ' -f1).* 2>/dev/null
}
trap cleanup EXIT
if ! git -C "$WT" apply "$D/patch.diff" 2>/dev/null; then
  if ! git -C "$WT" apply --3way "$D/patch.diff" >/dev/null 2>&1; then
    echo "{\"name\":\"$NAME\",\"error\":\"patch does not apply to HEAD\"}"; exit 0
  fi
fi
build=0; suite=0
(cd "$WT" && go build ./... >"$OUT/build.log" 2>&1) || build=1
if [ $build -eq 0 ] && [ "${SWEEP_SUITE:-1}" = 1 ]; then
  (cd "$WT" && go test -vet=off -count=1 ./... >"$OUT/suite.log" 2>&1) || suite=1
fi
RES=""
for P in $PROPS; do
  if [ $build -ne 0 ]; then break; fi
  start=$(date +%s)
  VERIF_REPO="$WT" VERIF_OUT="$OUT" "$ROOT"/run.sh $P $TIER >"$OUT/$P.log" 2>&1; rc=$?
  sigs=$(grep -E '^\s+\[' "$OUT/$P.log" | sed -E 's/^\s+\[(.*)\] x([0-9]+) first case.*/\1 x\2/' | head -8 | python3 -c "import sys,json;print(json.dumps([l.rstrip('\n') for l in sys.stdin]))")
  RES="$RES{\"prop\":\"$P\",\"exit\":$rc,\"violation_lines\":$(grep -c '^VIOLATION' "$OUT/$P.log"),\"secs\":$(($(date +%s)-start)),\"signatures\":$sigs},"
done
echo "{\"name\":\"$NAME\",\"tier\":\"$TIER\",\"build_ok\":$((1-build)),\"suite_ok\":$((1-suite)),\"runs\":[${RES%,}]}"
