// Package gen holds the shared workload generators.
package gen

import (
	"fmt"
	"reflect"
	"strings"

	"github.com/elliotchance/gedcom/v39"

	"verif/fw"
)

// Spec is a plain description of a node to be built through the public API.
type Spec struct {
	Tag     string
	Value   string
	Pointer string
	Kids    []*Spec
}

func (s *Spec) Count() int {
	n := 1
	for _, k := range s.Kids {
		n += k.Count()
	}
	return n
}

func (s *Spec) Depth() int {
	d := 0
	for _, k := range s.Kids {
		if x := k.Depth() + 1; x > d {
			d = x
		}
	}
	return d
}

func Text(specs []*Spec) string {
	var sb strings.Builder
	var w func(s *Spec, lvl int)
	w = func(s *Spec, lvl int) {
		fmt.Fprintf(&sb, "%d ", lvl)
		if s.Pointer != "" {
			fmt.Fprintf(&sb, "@%s@ ", s.Pointer)
		}
		sb.WriteString(s.Tag)
		if s.Value != "" {
			sb.WriteString(" " + s.Value)
		}
		sb.WriteByte('\n')
		for _, k := range s.Kids {
			w(k, lvl+1)
		}
	}
	for _, s := range specs {
		w(s, 0)
	}
	return sb.String()
}

// Builder builds documents from specs using only the public API.
type Builder struct {
	Doc     *gedcom.Document
	lastFam *gedcom.FamilyNode
	scratch *gedcom.Document
	// Substituted counts specs that could not be built as asked through the
	// public API and were replaced by a plain custom tag.
	Substituted int
}

func NewBuilder() *Builder {
	return &Builder{Doc: gedcom.NewDocument(), scratch: gedcom.NewDocument()}
}

func isAtPointer(v string) (string, bool) {
	if len(v) >= 2 && v[0] == '@' && v[len(v)-1] == '@' && !strings.Contains(v[1:len(v)-1], "@") {
		return v[1 : len(v)-1], true
	}
	return "", false
}

// roleNode makes a HUSB/WIFE/CHIL node through the family setters. The node
// is created inside fam; if detach is set it is removed from fam again so
// that it can be placed elsewhere ("after a family").
func (b *Builder) roleNode(fam *gedcom.FamilyNode, tag, value string, detach bool) gedcom.Node {
	p, ok := isAtPointer(value)
	if !ok || fam == nil {
		return nil
	}
	before := len(fam.Nodes())
	switch tag {
	case "HUSB":
		if fam.Husband() != nil {
			return nil // the setter would rewrite the existing husband line
		}
		fam.SetHusbandPointer(p)
	case "WIFE":
		if fam.Wife() != nil {
			return nil
		}
		fam.SetWifePointer(p)
	case "CHIL":
		if p == "" {
			return nil
		}
		ind := b.scratch.AddIndividual(p)
		fam.AddChild(ind)
	default:
		return nil
	}
	nodes := fam.Nodes()
	if len(nodes) != before+1 {
		return nil
	}
	n := nodes[len(nodes)-1]
	if detach {
		fam.DeleteNode(n)
	}
	return n
}

func (b *Builder) substitute(s *Spec) gedcom.Node {
	b.Substituted++
	return gedcom.NewNode(gedcom.TagFromString("_"+s.Tag), s.Value, s.Pointer)
}

// node builds a nested node (and its subtree). parentFam is the family the
// node is being built directly under (nil otherwise).
func (b *Builder) node(s *Spec, parentFam *gedcom.FamilyNode) gedcom.Node {
	var n gedcom.Node
	switch s.Tag {
	case "INDI", "FAM":
		// record nodes cannot be created below another node through the API
		n = b.substitute(s)
	case "HUSB", "WIFE", "CHIL":
		if parentFam != nil {
			n = b.roleNode(parentFam, s.Tag, s.Value, false)
			if n != nil {
				if s.Pointer != "" {
					// a role node cannot be given a pointer through the API
					b.Substituted++
				}
				b.addKids(n, s, nil)
				return nil // already attached by the setter
			}
		} else if b.lastFam != nil {
			n = b.roleNode(b.lastFam, s.Tag, s.Value, true)
		}
		if n == nil {
			n = b.substitute(s)
		}
	default:
		n = gedcom.NewNode(gedcom.TagFromString(s.Tag), s.Value, s.Pointer)
	}
	b.addKids(n, s, nil)
	return n
}

func (b *Builder) addKids(n gedcom.Node, s *Spec, fam *gedcom.FamilyNode) {
	for _, k := range s.Kids {
		if c := b.node(k, fam); c != nil {
			n.AddNode(c)
		}
	}
}

// Root adds a root record.
func (b *Builder) Root(s *Spec) {
	switch s.Tag {
	case "INDI":
		ind := b.Doc.AddIndividual(s.Pointer)
		b.addKids(ind, s, nil)
	case "FAM":
		fam := b.Doc.AddFamily(s.Pointer)
		b.lastFam = fam
		b.addKids(fam, s, fam)
	case "HUSB", "WIFE", "CHIL":
		var n gedcom.Node
		if b.lastFam != nil {
			n = b.roleNode(b.lastFam, s.Tag, s.Value, true)
		}
		if n == nil {
			n = b.substitute(s)
		}
		b.addKids(n, s, nil)
		b.Doc.AddNode(n)
	default:
		n := gedcom.NewNode(gedcom.TagFromString(s.Tag), s.Value, s.Pointer)
		b.addKids(n, s, nil)
		b.Doc.AddNode(n)
	}
}

func Build(specs []*Spec, bom bool) (*gedcom.Document, *Builder) {
	b := NewBuilder()
	b.Doc.HasBOM = bom
	for _, s := range specs {
		b.Root(s)
	}
	return b.Doc, b
}

// ---- structural comparison ----

func typeName(n gedcom.Node) string { return reflect.TypeOf(n).String() }

// Describe renders a node for messages.
func Describe(n gedcom.Node) string {
	if gedcom.IsNil(n) {
		return "<nil>"
	}
	return fmt.Sprintf("%s{tag=%q value=%q pointer=%q kids=%d}", typeName(n), n.Tag().Tag(), n.Value(), n.Pointer(), len(n.Nodes()))
}

// Diff compares two node lists position by position (tag, value, pointer,
// dynamic type, number and order of children, recursively). It returns ""
// if they are the same tree, else the field that differs first and a message.
func Diff(a, b gedcom.Nodes, path string) (field, msg string) {
	if len(a) != len(b) {
		return "child-count", fmt.Sprintf("%s: %d nodes vs %d nodes", path, len(a), len(b))
	}
	for i := range a {
		x, y := a[i], b[i]
		p := fmt.Sprintf("%s/%d:%s", path, i, x.Tag().Tag())
		switch {
		case x.Tag().Tag() != y.Tag().Tag():
			return "tag", fmt.Sprintf("%s: tag %q vs %q", p, x.Tag().Tag(), y.Tag().Tag())
		case x.Value() != y.Value():
			return "value", fmt.Sprintf("%s: value %q vs %q", p, x.Value(), y.Value())
		case x.Pointer() != y.Pointer():
			return "pointer", fmt.Sprintf("%s: pointer %q vs %q", p, x.Pointer(), y.Pointer())
		case typeName(x) != typeName(y):
			return "node-kind", fmt.Sprintf("%s: kind %s vs %s", p, typeName(x), typeName(y))
		}
		if f, m := Diff(x.Nodes(), y.Nodes(), p); f != "" {
			return f, m
		}
	}
	return "", ""
}

// DiffSpec compares a decoded tree with the spec forest it was rendered from.
func DiffSpec(specs []*Spec, got gedcom.Nodes, path string) (field, msg string) {
	if len(specs) != len(got) {
		return "child-count", fmt.Sprintf("%s: %d lines expected here vs %d nodes", path, len(specs), len(got))
	}
	for i, s := range specs {
		y := got[i]
		p := fmt.Sprintf("%s/%d:%s", path, i, s.Tag)
		wantValue := s.Value
		if s.Tag == "INDI" || s.Tag == "FAM" {
			wantValue = ""
		}
		switch {
		case s.Tag != y.Tag().Tag():
			return "tag", fmt.Sprintf("%s: tag %q vs %q", p, s.Tag, y.Tag().Tag())
		case wantValue != y.Value():
			return "value", fmt.Sprintf("%s: value %q vs %q", p, wantValue, y.Value())
		case s.Pointer != y.Pointer():
			return "pointer", fmt.Sprintf("%s: pointer %q vs %q", p, s.Pointer, y.Pointer())
		}
		if f, m := DiffSpec(s.Kids, y.Nodes(), p); f != "" {
			return f, m
		}
	}
	return "", ""
}

// ---- random forests ----

var valueClasses = []string{"empty", "word", "pointer-like", "line-like", "at-inside", "utf8", "long", "digits", "date", "name"}

func RandValue(r *fw.Rand) string {
	switch r.Intn(12) {
	case 0, 1:
		return ""
	case 2:
		return "@I" + fmt.Sprint(r.Intn(20)) + "@"
	case 3:
		return fmt.Sprintf("%d NOTE x", r.Intn(12))
	case 4:
		return "a@b" + fmt.Sprint(r.Intn(100)) + "@@ c"
	case 5:
		return "Żółć 名前 " + fmt.Sprint(r.Intn(100)) + " ñ"
	case 6:
		// now and then a line around the sizes at which readers and scanners
		// change their behaviour (4 KiB and 64 KiB buffers), rarely 1 MiB
		if r.Chance(1, 50) {
			n := []int{4070, 4090, 4096, 4100, 8192, 16384, 65500, 65536, 65600, 100000}[r.Intn(10)]
			if r.Chance(1, 150) {
				n = 1 << 20
			}
			b := []byte(strings.Repeat("long value 1 NOTE x ", n/20+1))[:n]
			return strings.TrimSpace(string(b)) + "end"
		}
		return strings.Repeat("long value ", 5+r.Intn(40)) + "end"
	case 7:
		return fmt.Sprint(r.Intn(100000))
	case 8:
		return fmt.Sprintf("%d %s %d", r.Range(1, 28), []string{"Jan", "Feb", "Mar", "Sep", "Dec"}[r.Intn(5)], r.Range(1000, 2020))
	case 9:
		return "John /Smith" + fmt.Sprint(r.Intn(50)) + "/"
	case 10:
		return "@ lone at, double  space"
	}
	return "w" + fmt.Sprint(r.Intn(1000))
}

func RandPointer(r *fw.Rand) string {
	switch r.Intn(10) {
	case 0:
		return "P-" + fmt.Sprint(r.Intn(100)) + ".x"
	case 1:
		return "a b" + fmt.Sprint(r.Intn(100))
	}
	return []string{"I", "F", "S", "N", "X_"}[r.Intn(5)] + fmt.Sprint(r.Intn(200))
}

var customTags = []string{"_X", "_UID2", "1A", "99", "abc", "_", "X9_z", "birt", "Name", "_MILT"}

// AllTags returns every registered tag string.
func AllTags() []string {
	var o []string
	for _, t := range gedcom.Tags() {
		o = append(o, t.Tag())
	}
	return o
}

type ForestOpts struct {
	MaxRoots  int
	MaxKids   int
	MaxDepth  int
	MaxNodes  int
	ForceTag  string // included at least once
	ChainDeep int    // a chain of this depth is included
}

func randTag(r *fw.Rand, tags []string, nested bool) string {
	switch r.Intn(10) {
	case 0, 1:
		return customTags[r.Intn(len(customTags))]
	case 2:
		if nested {
			return []string{"HUSB", "WIFE", "CHIL", "DATE", "PLAC", "NAME", "SEX", "_UID", "RESI"}[r.Intn(9)]
		}
		return []string{"INDI", "FAM", "SOUR", "NOTE", "HEAD", "TRLR", "HUSB", "CHIL"}[r.Intn(8)]
	}
	return tags[r.Intn(len(tags))]
}

func roleValue(r *fw.Rand, tag string) string {
	if tag == "HUSB" || tag == "WIFE" || tag == "CHIL" {
		if r.Chance(4, 5) {
			return "@I" + fmt.Sprint(r.Intn(30)) + "@"
		}
	}
	return RandValue(r)
}

// RandomForest draws a forest.
func RandomForest(r *fw.Rand, o ForestOpts) []*Spec {
	tags := AllTags()
	budget := o.MaxNodes
	if budget <= 0 {
		budget = 60
	}
	var mk func(depth int, nested bool) *Spec
	mk = func(depth int, nested bool) *Spec {
		budget--
		t := randTag(r, tags, nested)
		s := &Spec{Tag: t, Value: roleValue(r, t)}
		if !nested && (t == "INDI" || t == "FAM" || r.Chance(1, 3)) || nested && r.Chance(1, 12) {
			s.Pointer = RandPointer(r)
		}
		if t == "INDI" || t == "FAM" {
			s.Value = ""
		}
		if depth < o.MaxDepth && budget > 0 {
			nk := r.Intn(o.MaxKids + 1)
			if r.Chance(1, 2) {
				nk = r.Intn(3)
			}
			for i := 0; i < nk && budget > 0; i++ {
				k := mk(depth+1, true)
				s.Kids = append(s.Kids, k)
				if r.Chance(1, 8) && budget > 0 { // duplicate sibling on purpose
					budget--
					s.Kids = append(s.Kids, &Spec{Tag: k.Tag, Value: k.Value, Pointer: k.Pointer})
				}
			}
		}
		return s
	}
	nr := 1 + r.Intn(o.MaxRoots)
	var f []*Spec
	for i := 0; i < nr && budget > 0; i++ {
		f = append(f, mk(0, false))
	}
	if o.ForceTag != "" {
		s := &Spec{Tag: o.ForceTag, Value: roleValue(r, o.ForceTag)}
		if o.ForceTag == "INDI" || o.ForceTag == "FAM" {
			s.Value = ""
			s.Pointer = RandPointer(r)
			f = append(f, s)
		} else if o.ForceTag == "HUSB" || o.ForceTag == "WIFE" || o.ForceTag == "CHIL" {
			fam := &Spec{Tag: "FAM", Pointer: RandPointer(r), Kids: []*Spec{s}}
			f = append(f, fam)
		} else {
			host := f[r.Intn(len(f))]
			host.Kids = append(host.Kids, s)
			if r.Bool() {
				s.Kids = append(s.Kids, &Spec{Tag: "NOTE", Value: RandValue(r)})
			}
		}
	}
	if o.ChainDeep > 0 {
		root := &Spec{Tag: "NOTE", Value: "chain", Pointer: RandPointer(r)}
		cur := root
		for d := 1; d <= o.ChainDeep; d++ {
			t := randTag(r, tags, true)
			if t == "HUSB" || t == "WIFE" || t == "CHIL" {
				t = "_R"
			}
			k := &Spec{Tag: t, Value: RandValue(r)}
			cur.Kids = append(cur.Kids, k)
			if r.Chance(1, 6) {
				cur.Kids = append(cur.Kids, &Spec{Tag: "_SIB", Value: fmt.Sprint(d)})
			}
			cur = k
		}
		f = append(f, root)
	}
	return f
}
