package gen

import (
	"fmt"
	"strings"

	"verif/fw"
)

// StreamOpts mirrors the decoder options the stream is written for.
type StreamOpts struct {
	MultiLine      bool // junk continuation lines may be emitted
	InvalidIndents bool // over-deep levels may be emitted
	Plain          bool // no noise at all
}

type StreamInfo struct {
	Lines         int
	BigDedents    int // dedent by >= 2 levels
	SibAfterGrand int // a sibling line that follows a grandchild of its elder sibling
	OverDeep      int
	Junk          int
	Blank         int
	BOM           bool
	Endings       map[string]int
}

func (i StreamInfo) Nontrivial() bool { return i.BigDedents > 0 || i.SibAfterGrand > 0 }

type flatLine struct {
	spec  *Spec // expected copy
	level int
}

func copySpec(s *Spec) *Spec {
	c := &Spec{Tag: s.Tag, Value: s.Value, Pointer: s.Pointer}
	for _, k := range s.Kids {
		c.Kids = append(c.Kids, copySpec(k))
	}
	return c
}

// Decodable rewrites a forest so that the decoder can accept it: role tags
// that occur before any FAM line (in file order) are renamed.
func Decodable(specs []*Spec) []*Spec {
	seenFam := false
	var fix func(s *Spec)
	fix = func(s *Spec) {
		if s.Tag == "FAM" {
			seenFam = true
		}
		if (s.Tag == "HUSB" || s.Tag == "WIFE" || s.Tag == "CHIL") && !seenFam {
			s.Tag = "_" + s.Tag
		}
		for _, k := range s.Kids {
			fix(k)
		}
	}
	var out []*Spec
	for _, s := range specs {
		c := copySpec(s)
		fix(c)
		out = append(out, c)
	}
	return out
}

var junkLines = []string{"continued text", "  indented words", "x", "no level here @I1@", "-- 5 NOTE not a line", "ÿ binary \xff\xfe bytes", "@X1@ INDI", "1NOTE glued"}

// RenderStream writes a forest as GEDCOM bytes with grammar-insignificant
// noise and returns the forest the decoder must produce.
func RenderStream(r *fw.Rand, specs []*Spec, o StreamOpts) ([]byte, []*Spec, StreamInfo) {
	info := StreamInfo{Endings: map[string]int{}}
	var expected []*Spec
	var lines []flatLine
	var flat func(s *Spec, lvl int)
	flat = func(s *Spec, lvl int) {
		lines = append(lines, flatLine{s, lvl})
		for _, k := range s.Kids {
			flat(k, lvl+1)
		}
	}
	for _, s := range specs {
		c := copySpec(s)
		expected = append(expected, c)
		flat(c, 0)
	}
	var sb strings.Builder
	if !o.Plain && r.Chance(1, 4) {
		sb.WriteString("\xef\xbb\xbf")
		info.BOM = true
	}
	ending := func() string {
		if o.Plain {
			return "\n"
		}
		e := []string{"\n", "\n", "\r", "\r\n"}[r.Intn(4)]
		info.Endings[strings.NewReplacer("\n", "LF", "\r", "CR").Replace(e)]++
		return e
	}
	spaces := func(max int) string {
		if o.Plain || r.Chance(2, 3) {
			return " "
		}
		return strings.Repeat(" ", 1+r.Intn(max))
	}
	prevLevel := -1
	maxSinceSibling := map[int]int{} // level -> deepest level seen since the last line at that level
	for idx, ln := range lines {
		info.Lines++
		if prevLevel-ln.level >= 2 {
			info.BigDedents++
		}
		if ln.level > 0 && maxSinceSibling[ln.level] >= ln.level+1 && prevLevel > ln.level {
			info.SibAfterGrand++
		}
		for l := range maxSinceSibling {
			if l < ln.level && ln.level > maxSinceSibling[l] {
				maxSinceSibling[l] = ln.level
			}
		}
		maxSinceSibling[ln.level] = ln.level
		lvl := ln.level
		if o.InvalidIndents && !o.Plain && idx > 0 && ln.level == prevLevel+1 && r.Chance(1, 5) {
			// over-deep: must hang below the deepest open node, however far the
			// level overshoots (one digit, two, three, or close to the int range)
			switch r.Intn(8) {
			case 0:
				lvl = ln.level + 10 + r.Intn(90)
			case 1:
				lvl = 100 + r.Intn(900)
			case 2:
				lvl = []int{1000, 65536, 1 << 31, 1<<31 + 1, 1 << 32, 1<<62 + r.Intn(1000), 1<<63 - 1}[r.Intn(7)]
			default:
				lvl = ln.level + 1 + r.Intn(3)
			}
			info.OverDeep++
		}
		prevLevel = ln.level
		s := ln.spec
		sb.WriteString(fmt.Sprint(lvl))
		sb.WriteString(spaces(5))
		if s.Pointer != "" {
			sb.WriteString("@" + s.Pointer + "@ ")
		}
		sb.WriteString(s.Tag)
		written := s.Value
		if (s.Tag == "INDI" || s.Tag == "FAM") && !o.Plain && r.Chance(1, 6) {
			written = "ignored value" // record lines carry no value
		}
		if written != "" {
			sb.WriteString(spaces(3))
			if !o.Plain && r.Chance(1, 20) {
				// white space that is not ASCII at the start of the value
				sb.WriteString([]string{"\u00a0", "\u3000", "\u2003", "\u0085", "\u00a0 "}[r.Intn(5)])
			}
			sb.WriteString(written)
		}
		trailing := ""
		if !o.Plain && r.Chance(1, 8) {
			// the value is trimmed of surrounding white space: ASCII and, as
			// strings.TrimSpace does, the Unicode spaces (no-break space,
			// ideographic space, em space, next line)
			trailing = []string{" ", "  ", " \t", "\u00a0", "\u3000", "\u2003", "\u0085", "\u00a0\u00a0", " \u00a0"}[r.Intn(9)]
			sb.WriteString(trailing)
		}
		if s.Tag == "INDI" || s.Tag == "FAM" {
			s.Value = ""
		}
		// terminator, blank lines and junk
		last := idx == len(lines)-1
		var tail strings.Builder // what AllowMultiLine appends to this node's value
		if last && !o.Plain && r.Chance(1, 3) {
			// no terminator at end of file
		} else {
			e := ending()
			sb.WriteString(e)
			if e == "\r\n" {
				tail.WriteString("\n") // the empty line between CR and LF
			}
			for !o.Plain && r.Chance(1, 6) {
				e := ending()
				sb.WriteString(e)
				info.Blank++
				tail.WriteString(strings.Repeat("\n", len(e)))
			}
			if o.MultiLine && !o.Plain && s.Tag != "INDI" && s.Tag != "FAM" && r.Chance(1, 6) {
				n := 1 + r.Intn(2)
				for j := 0; j < n; j++ {
					junk := junkLines[r.Intn(len(junkLines))]
					e := ending()
					sb.WriteString(junk + e)
					info.Junk++
					tail.WriteString("\n" + junk)
					if e == "\r\n" {
						tail.WriteString("\n")
					}
				}
			}
		}
		if o.MultiLine {
			s.Value = strings.TrimSpace(s.Value + trailing + tail.String())
			if s.Tag == "INDI" || s.Tag == "FAM" {
				s.Value = strings.TrimSpace(tail.String())
			}
		}
	}
	return []byte(sb.String()), expected, info
}

// gedBytes: alphabet biased to what matters to the line grammar.
var gedBytes = []byte("0123456789  \n\r@@_ABINDFMHUSWCLTEabcxyz/.-\t\xff\x00")

// Mutate applies 1..8 small edits.
func Mutate(r *fw.Rand, data []byte) []byte {
	out := append([]byte{}, data...)
	n := 1 + r.Intn(8)
	for i := 0; i < n; i++ {
		if len(out) == 0 {
			out = append(out, gedBytes[r.Intn(len(gedBytes))])
			continue
		}
		p := r.Intn(len(out))
		switch r.Intn(7) {
		case 0, 1:
			out[p] = gedBytes[r.Intn(len(gedBytes))]
		case 2:
			out = append(out[:p], out[p+1:]...)
		case 3:
			out = append(out[:p], append([]byte{gedBytes[r.Intn(len(gedBytes))]}, out[p:]...)...)
		case 4: // duplicate a line
			ls := strings.SplitAfter(string(out), "\n")
			k := r.Intn(len(ls))
			ls = append(ls[:k+1], ls[k:]...)
			out = []byte(strings.Join(ls, ""))
		case 5: // swap two lines
			ls := strings.SplitAfter(string(out), "\n")
			a, b := r.Intn(len(ls)), r.Intn(len(ls))
			ls[a], ls[b] = ls[b], ls[a]
			out = []byte(strings.Join(ls, ""))
		case 6: // change a level digit
			for q := 0; q < 20; q++ {
				p := r.Intn(len(out))
				if (p == 0 || out[p-1] == '\n' || out[p-1] == '\r') && out[p] >= '0' && out[p] <= '9' {
					out[p] = byte('0' + r.Intn(10))
					break
				}
			}
		}
	}
	if r.Chance(1, 10) && len(out) > 2 {
		out = out[:r.Intn(len(out))]
	}
	return out
}
