package gen

import (
	"fmt"
	"strings"

	"verif/fw"
	"verif/ref"
)

// FamilyGraph generator: produces GEDCOM text together with the ground-truth
// model it was written from. Oracles read the ground truth, never the library.

type Ev struct {
	Tag     string // BIRT, BAPM, DEAT, BURI, MARR, RESI...
	Y, M, D int    // 0 = absent part; all 0 = no date
	Text    string // DATE value as written (may differ from the exact form)
	Place   string
	Extra   []*Spec // further lines below the event (AGE, CAUS, TYPE, NOTE ...)
}

var MonthAbbr = []string{"", "Jan", "Feb", "Mar", "Apr", "May", "Jun", "Jul", "Aug", "Sep", "Oct", "Nov", "Dec"}

func ExactDate(y, m, d int) string { return fmt.Sprintf("%d %s %d", d, MonthAbbr[m], y) }

func (e *Ev) DateText() string {
	if e.Text != "" {
		return e.Text
	}
	switch {
	case e.Y == 0:
		return ""
	case e.M == 0:
		return fmt.Sprint(e.Y)
	case e.D == 0:
		return fmt.Sprintf("%s %d", MonthAbbr[e.M], e.Y)
	}
	return ExactDate(e.Y, e.M, e.D)
}

func (e *Ev) Day() int64 { return ref.DayNumber(e.Y, e.M, e.D) }

type Person struct {
	Idx      int
	Ptr      string
	Given    string
	Surname  string
	Names    []string // additional NAME values ("Given /Surname/")
	NameSub  []*Spec  // sub-nodes of the first NAME (GIVN, SURN, NPFX...)
	NameText string   // if set: the value of the first NAME line as written
	NoName   bool
	Sex      string // "M", "F", "U", "" (no SEX line)
	Events   []*Ev
	UIDs     []string // _UID values
	FSIDs    []string // _FSFTID values
	FamS     []int
	FamC     []int
	Living   bool // by construction
	Extra    []*Spec
	Tracer   string
	// Sub: extra children for the first node with the given tag among the
	// events ("BIRT", "DEAT", ...); BareEv: events written without any child.
	Sub    map[string][]*Spec
	BareEv map[string]bool
}

func (p *Person) Ev(tag string) *Ev {
	for _, e := range p.Events {
		if e.Tag == tag {
			return e
		}
	}
	return nil
}

func (p *Person) FullName() string {
	if p.NoName {
		return ""
	}
	return strings.TrimSpace(p.Given + " /" + p.Surname + "/")
}

type Family struct {
	Idx    int
	Ptr    string
	Husb   int // person index or -1
	Wife   int
	Kids   []int
	Events []*Ev
	Extra  []*Spec
}

type Source struct {
	Ptr   string
	Title string
	Extra []*Spec
}

type FG struct {
	People   []*Person
	Families []*Family
	Sources  []*Source
	Head     bool
}

// Token returns a unique pronounceable lower-case token of fixed length 8 for n
// (no token is a substring of another token).
func Token(n int) string {
	cons := "bdfgklmnprstvz"
	vow := "aeiou"
	var b []byte
	x := n
	for i := 0; i < 4; i++ {
		b = append(b, cons[x%len(cons)])
		x /= len(cons)
		b = append(b, vow[x%len(vow)])
		x /= len(vow)
	}
	return string(b)
}

func Cap(s string) string {
	if s == "" {
		return s
	}
	return strings.ToUpper(s[:1]) + s[1:]
}

type FGOpts struct {
	People       int  // approximate number of people (0..)
	UniqueTokens bool // names/places are unique marker tokens
	TokenBase    int  // first token number (so that two documents do not share tokens)
	PtrPrefix    string
	ExactDates   bool // only exact day dates
	NoLiving     bool // nobody born after 1900 without a death
	WithUIDs     bool
	WithSources  bool
	MultiNames   bool
	MissingBits  bool // some people without names, dates, sex
	StartYear    int  // birth year base of the first generation (default 1700)
}

var commonGiven = []string{"John", "Mary", "William", "Anna", "James", "Elizabeth", "Robert", "Sarah", "Thomas", "Jane", "Henry", "Margaret", "Joseph", "Emma", "Karl", "Élise"}
var commonSurnames = []string{"Smith", "Jones", "Taylor", "Brown", "Chance", "O'Neil", "van Dyke", "Müller", "Smythe", "Jonson", "Tailor", "Braun"}
var commonPlaces = []string{"London, England", "Sydney, Australia", "Paris, France", "Springfield, Illinois, USA", "Wellington, New Zealand", "Yorkshire"}

// NewFG draws a family graph: generations of couples and their children, so
// that the graph is acyclic and parents are 20..40 years older than children.
func NewFG(r *fw.Rand, o FGOpts) *FG {
	g := &FG{Head: true}
	tok := o.TokenBase
	next := func() string { tok++; return Token(tok) }
	start := o.StartYear
	if start == 0 {
		start = 1700
	}
	pfx := o.PtrPrefix
	if pfx == "" {
		pfx = "I"
	}
	newPerson := func(sex string, birthYear int, surname string) *Person {
		p := &Person{Idx: len(g.People), Sex: sex}
		p.Ptr = fmt.Sprintf("%s%d", pfx, p.Idx+1)
		if o.UniqueTokens {
			p.Given = Cap(next())
			if surname == "" {
				surname = Cap(next())
			}
		} else {
			p.Given = commonGiven[r.Intn(len(commonGiven))]
			if r.Chance(1, 4) {
				p.Given += " " + commonGiven[r.Intn(len(commonGiven))]
			}
			if surname == "" {
				surname = commonSurnames[r.Intn(len(commonSurnames))]
			}
		}
		p.Surname = surname
		place := func() string {
			if o.UniqueTokens {
				return Cap(next()) + ", " + Cap(next())
			}
			return commonPlaces[r.Intn(len(commonPlaces))]
		}
		bm, bd := r.Range(1, 12), r.Range(1, 28)
		b := &Ev{Tag: "BIRT", Y: birthYear, M: bm, D: bd, Place: place()}
		p.Events = append(p.Events, b)
		if !o.ExactDates {
			switch r.Intn(8) {
			case 0:
				b.D = 0
			case 1:
				b.M, b.D = 0, 0
			case 2:
				b.Text = "Abt. " + fmt.Sprint(birthYear)
				b.M, b.D = 0, 0
			}
		}
		if r.Chance(1, 4) {
			p.Events = append(p.Events, &Ev{Tag: "BAPM", Y: birthYear, M: bm, D: bd + r.Intn(2), Place: place()})
		}
		dead := birthYear <= 1900 || r.Chance(1, 3) || o.NoLiving
		if dead {
			age := r.Range(1, 95)
			dy := birthYear + age
			if dy > 2020 {
				dy = 2020
				if dy <= birthYear {
					dy = birthYear + 1
				}
			}
			d := &Ev{Tag: "DEAT", Y: dy, M: r.Range(1, 12), D: r.Range(1, 28), Place: place()}
			if !o.ExactDates && r.Chance(1, 6) {
				d.M, d.D = 0, 0
			}
			p.Events = append(p.Events, d)
			if r.Chance(1, 4) {
				p.Events = append(p.Events, &Ev{Tag: "BURI", Y: d.Y, M: d.M, D: d.D, Place: place()})
			}
		} else {
			p.Living = birthYear >= 2000
		}
		if o.WithUIDs && r.Chance(1, 2) {
			p.UIDs = append(p.UIDs, fmt.Sprintf("%032X", r.U64())[:32])
			for len(p.UIDs[0]) < 32 {
				p.UIDs[0] += "0"
			}
		}
		if o.MultiNames && r.Chance(1, 3) {
			if o.UniqueTokens {
				p.Names = append(p.Names, Cap(next())+" /"+Cap(next())+"/")
			} else {
				p.Names = append(p.Names, commonGiven[r.Intn(len(commonGiven))]+" /"+commonSurnames[r.Intn(len(commonSurnames))]+"/")
			}
		}
		if o.MissingBits {
			switch r.Intn(10) {
			case 0:
				p.NoName = true
			case 1:
				p.Events = nil
				p.Living = false
			case 2:
				p.Sex = ""
			}
		}
		g.People = append(g.People, p)
		return p
	}
	newFamily := func(h, w *Person) *Family {
		f := &Family{Idx: len(g.Families), Husb: -1, Wife: -1}
		f.Ptr = fmt.Sprintf("F%s%d", strings.TrimPrefix(pfx, "I"), f.Idx+1)
		if h != nil {
			f.Husb = h.Idx
			h.FamS = append(h.FamS, f.Idx)
		}
		if w != nil {
			f.Wife = w.Idx
			w.FamS = append(w.FamS, f.Idx)
		}
		g.Families = append(g.Families, f)
		return f
	}
	if o.People <= 0 {
		return g
	}
	// founders
	type couple struct {
		f    *Family
		year int // birth year of the younger spouse
		sur  string
	}
	var frontier []couple
	mkCouple := func(year int, existing *Person) couple {
		var h, w *Person
		if existing != nil && existing.Sex == "F" {
			w = existing
			h = newPerson("M", year-r.Intn(6), "")
		} else if existing != nil {
			h = existing
			w = newPerson("F", year+r.Intn(6), "")
		} else {
			h = newPerson("M", year, "")
			w = newPerson("F", year+r.Intn(5), "")
		}
		f := newFamily(h, w)
		my := year + r.Range(20, 30)
		f.Events = append(f.Events, &Ev{Tag: "MARR", Y: my, M: r.Range(1, 12), D: r.Range(1, 28)})
		return couple{f, year + 5, h.Surname}
	}
	frontier = append(frontier, mkCouple(start+r.Intn(10), nil))
	for len(g.People) < o.People && len(frontier) > 0 {
		c := frontier[0]
		frontier = frontier[1:]
		nk := r.Range(1, 4)
		by := c.year + r.Range(21, 28)
		for k := 0; k < nk && len(g.People) < o.People; k++ {
			sex := "M"
			if r.Bool() {
				sex = "F"
			}
			kid := newPerson(sex, by, c.sur)
			kid.FamC = append(kid.FamC, c.f.Idx)
			c.f.Kids = append(c.f.Kids, kid.Idx)
			by += r.Range(1, 4)
			if by < 2015 && r.Chance(2, 3) && len(g.People) < o.People {
				frontier = append(frontier, mkCouple(kid.Events0Year(by), kid))
			}
		}
		if len(frontier) == 0 && len(g.People) < o.People {
			frontier = append(frontier, mkCouple(start+r.Intn(50), nil))
		}
	}
	if o.WithSources {
		n := 1 + r.Intn(3)
		for i := 0; i < n; i++ {
			t := "Parish register " + fmt.Sprint(i)
			if o.UniqueTokens {
				t = Cap(next()) + " register"
			}
			g.Sources = append(g.Sources, &Source{Ptr: fmt.Sprintf("S%d", i+1), Title: t})
		}
	}
	return g
}

// Events0Year: birth year if known, else the fallback.
func (p *Person) Events0Year(fallback int) int {
	if b := p.Ev("BIRT"); b != nil && b.Y != 0 {
		return b.Y
	}
	return fallback
}

func evSpec(e *Ev) *Spec {
	s := &Spec{Tag: e.Tag}
	if dt := e.DateText(); dt != "" {
		s.Kids = append(s.Kids, &Spec{Tag: "DATE", Value: dt})
	}
	if e.Place != "" {
		s.Kids = append(s.Kids, &Spec{Tag: "PLAC", Value: e.Place})
	}
	s.Kids = append(s.Kids, e.Extra...)
	return s
}

func (g *FG) PersonSpec(p *Person) *Spec {
	s := &Spec{Tag: "INDI", Pointer: p.Ptr}
	if !p.NoName {
		n := &Spec{Tag: "NAME", Value: p.FullName()}
		if p.NameText != "" {
			n.Value = p.NameText
		}
		n.Kids = append(n.Kids, p.NameSub...)
		s.Kids = append(s.Kids, n)
		for _, x := range p.Names {
			s.Kids = append(s.Kids, &Spec{Tag: "NAME", Value: x})
		}
	}
	if p.Sex != "" {
		s.Kids = append(s.Kids, &Spec{Tag: "SEX", Value: p.Sex})
	}
	subDone := map[string]bool{}
	for _, e := range p.Events {
		es := evSpec(e)
		if p.BareEv[e.Tag] {
			es.Kids = nil
		}
		if !subDone[e.Tag] {
			subDone[e.Tag] = true
			es.Kids = append(es.Kids, p.Sub[e.Tag]...)
		}
		s.Kids = append(s.Kids, es)
	}
	for _, u := range p.UIDs {
		s.Kids = append(s.Kids, &Spec{Tag: "_UID", Value: u})
	}
	for _, u := range p.FSIDs {
		s.Kids = append(s.Kids, &Spec{Tag: "_FSFTID", Value: u})
	}
	if p.Tracer != "" {
		s.Kids = append(s.Kids, &Spec{Tag: "_TRC", Value: p.Tracer})
	}
	s.Kids = append(s.Kids, p.Extra...)
	for _, f := range p.FamS {
		s.Kids = append(s.Kids, &Spec{Tag: "FAMS", Value: "@" + g.Families[f].Ptr + "@"})
	}
	for _, f := range p.FamC {
		s.Kids = append(s.Kids, &Spec{Tag: "FAMC", Value: "@" + g.Families[f].Ptr + "@"})
	}
	return s
}

func (g *FG) FamilySpec(f *Family) *Spec {
	s := &Spec{Tag: "FAM", Pointer: f.Ptr}
	if f.Husb >= 0 {
		s.Kids = append(s.Kids, &Spec{Tag: "HUSB", Value: "@" + g.People[f.Husb].Ptr + "@"})
	}
	if f.Wife >= 0 {
		s.Kids = append(s.Kids, &Spec{Tag: "WIFE", Value: "@" + g.People[f.Wife].Ptr + "@"})
	}
	for _, k := range f.Kids {
		s.Kids = append(s.Kids, &Spec{Tag: "CHIL", Value: "@" + g.People[k].Ptr + "@"})
	}
	for _, e := range f.Events {
		s.Kids = append(s.Kids, evSpec(e))
	}
	s.Kids = append(s.Kids, f.Extra...)
	return s
}

// Specs renders the graph as a forest: HEAD, individuals, families, sources, TRLR.
func (g *FG) Specs() []*Spec {
	var out []*Spec
	if g.Head {
		out = append(out, &Spec{Tag: "HEAD", Kids: []*Spec{{Tag: "CHAR", Value: "UTF-8"}}})
	}
	for _, p := range g.People {
		out = append(out, g.PersonSpec(p))
	}
	for _, f := range g.Families {
		out = append(out, g.FamilySpec(f))
	}
	for _, s := range g.Sources {
		sp := &Spec{Tag: "SOUR", Pointer: s.Ptr}
		if s.Title != "" {
			sp.Kids = append(sp.Kids, &Spec{Tag: "TITL", Value: s.Title})
		}
		sp.Kids = append(sp.Kids, s.Extra...)
		out = append(out, sp)
	}
	if g.Head {
		out = append(out, &Spec{Tag: "TRLR"})
	}
	return out
}

func (g *FG) Text() string { return Text(g.Specs()) }

// ClonePerson adds an indistinguishable record (same names, sex, events, ids)
// under a new pointer, not linked to any family.
func (g *FG) ClonePerson(p *Person, ptr string) *Person {
	q := &Person{Idx: len(g.People), Ptr: ptr, Given: p.Given, Surname: p.Surname, Names: append([]string{}, p.Names...),
		NameSub: p.NameSub, NoName: p.NoName, Sex: p.Sex, UIDs: append([]string{}, p.UIDs...), FSIDs: append([]string{}, p.FSIDs...), Living: p.Living}
	for _, e := range p.Events {
		c := *e
		q.Events = append(q.Events, &c)
	}
	g.People = append(g.People, q)
	return q
}
