#!/bin/bash
# Single entry point: ./run.sh <Cxx> <quick|thorough>   or   ./run.sh <Cxx> --replay <file>
# Rebuilds the harness (and, where needed, the gedcom CLI) from /repo's current
# working tree with the hook tag on, then runs the supervisor.
set -u
cd "$(dirname "$0")"
export VERIF_ROOT="$PWD"
export GOFLAGS=-mod=mod GOPROXY=off GOSUMDB=off GOTOOLCHAIN=local
PROP="${1:?usage: run.sh Cxx quick|thorough|--replay file}"
shift
TIER="${VERIF_TIER:-quick}"
REPLAY=""
while [ $# -gt 0 ]; do
  case "$1" in
    quick|thorough) TIER="$1";;
    --replay) shift; REPLAY="$1";;
    *) echo "unknown argument $1" >&2; exit 2;;
  esac
  shift
done
REPO="${VERIF_REPO:-/repo}"
mkdir -p bin .scratch evidence replays
RACE=""
case "$PROP" in C11|C19) RACE="-race";; esac
MODFILE=""
SUF=""
if [ "$REPO" != "/repo" ]; then
  # development aid only (seeded-change experiments on a scratch worktree):
  # point the replace directive at another checkout through -modfile.
  SUF="-$(echo "$REPO" | cksum | cut -d' ' -f1)"
  sed "s#=> /repo#=> $REPO#" go.mod > ".scratch/go$SUF.mod"
  cp go.sum ".scratch/go$SUF.sum"
  MODFILE="-modfile=.scratch/go$SUF.mod"
fi
BIN="bin/vcheck$RACE$SUF"
export VERIF_MODFILE="$MODFILE"
# serialise builds (several checks may be started at once)
exec 9>.scratch/build.lock
flock 9
if ! go build $MODFILE $RACE -tags verif -o "$BIN" ./cmd/vcheck 2>.scratch/build.$$.log; then
  cat .scratch/build.$$.log >&2; rm -f .scratch/build.$$.log
  echo "BUILD FAILED (harness or $REPO does not compile with -tags verif)" >&2
  exit 2
fi
rm -f .scratch/build.$$.log
case "$PROP" in
  C03|C10|C11|C14|C15|C16|C17|C18|C19|C20)
    if ! (cd "$REPO" && go build $RACE -tags verif -o "$VERIF_ROOT/bin/gedcom$RACE$SUF" ./cmd/gedcom) 2>.scratch/buildcli.$$.log; then
      cat .scratch/buildcli.$$.log >&2; rm -f .scratch/buildcli.$$.log
      echo "BUILD FAILED (gedcom CLI)" >&2
      exit 2
    fi
    rm -f .scratch/buildcli.$$.log
    export VERIF_GEDCOM_BIN="$VERIF_ROOT/bin/gedcom$RACE$SUF"
    ;;
esac
flock -u 9
if [ -n "$REPLAY" ]; then
  exec "$BIN" -prop "$PROP" -tier "$TIER" -replay "$REPLAY"
fi
exec "$BIN" -prop "$PROP" -tier "$TIER"
