package fw

import "sync"

// ParallelThenAlone evaluates f(0..n-1) from `workers` goroutines released
// together (each goroutine walks all n indexes, starting at a different one, so
// that every index is asked by several goroutines at about the same time and
// whatever f memoises is filled in under contention), then once more alone.
// It returns the first index for which some goroutine got another answer than
// the lone caller (fAlone, which may ask fresh objects), or -1.
func ParallelThenAlone(workers, n int, f, fAlone func(i int) string) (idx int, parallel, alone string) {
	got := make([][]string, workers)
	var wg sync.WaitGroup
	start := make(chan struct{})
	for w := 0; w < workers; w++ {
		got[w] = make([]string, n)
		wg.Add(1)
		go func(w int) {
			defer wg.Done()
			<-start
			for k := 0; k < n; k++ {
				i := (k + w*(n/workers+1)) % n
				if w%2 == 1 {
					i = (k + w) % n
				}
				got[w][i] = f(i)
			}
		}(w)
	}
	close(start)
	wg.Wait()
	for i := 0; i < n; i++ {
		want := fAlone(i)
		for w := 0; w < workers; w++ {
			if got[w][i] != want {
				return i, got[w][i], want
			}
		}
	}
	return -1, "", ""
}
