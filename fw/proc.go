package fw

import (
	"bytes"
	"fmt"
	"os"
	"os/exec"
	"runtime"
	"strconv"
	"strings"
	"sync"
	"syscall"
	"time"
)

// ProcResult is what RunProcess observed.
type ProcResult struct {
	Out string
	Err error
	// Hang: "" (the process ended by itself), "busy-loop" (killed by its own
	// CPU-time limit), "deadlock" (it made no progress at all and the goroutine
	// dump it printed on SIGQUIT shows that nothing can run), "idle" (no
	// progress, dump does not prove a deadlock: inconclusive), "watchdog"
	// (generous wall-clock limit: inconclusive).
	Hang string
	Dump string
}

type lockedBuffer struct {
	mu sync.Mutex
	b  bytes.Buffer
}

func (l *lockedBuffer) Write(p []byte) (int, error) {
	l.mu.Lock()
	defer l.mu.Unlock()
	return l.b.Write(p)
}

func (l *lockedBuffer) String() string {
	l.mu.Lock()
	defer l.mu.Unlock()
	return l.b.String()
}

func (l *lockedBuffer) Len() int {
	l.mu.Lock()
	defer l.mu.Unlock()
	return l.b.Len()
}

func procCPUTicks(pid int) (int64, bool) {
	b, err := os.ReadFile(fmt.Sprintf("/proc/%d/stat", pid))
	if err != nil {
		return 0, false
	}
	s := string(b)
	i := strings.LastIndexByte(s, ')')
	if i < 0 {
		return 0, false
	}
	f := strings.Fields(s[i+1:])
	if len(f) < 13 {
		return 0, false
	}
	u, e1 := strconv.ParseInt(f[11], 10, 64)
	st, e2 := strconv.ParseInt(f[12], 10, 64)
	if e1 != nil || e2 != nil {
		return 0, false
	}
	return u + st, true
}

// IsDeadlockDump: a goroutine dump (GOTRACEBACK=all or SIGQUIT) in which every
// goroutine that runs code of the program itself (package main, the library,
// the harness) is parked on a channel, a select, a lock or a wait group. The
// goroutines of the runtime and of os/signal are always there and are not
// looked at. Nothing of the program can run, so nothing can wake it up.
func IsDeadlockDump(dump string) bool {
	ok, _ := ParkedGoroutines(dump, "")
	return ok
}

var programFrames = []string{modPrefix, "\nmain.", "\nverif/"}

// ParkedGoroutines: see IsDeadlockDump. With marker != "" at least one of the
// parked goroutines must have marker on its stack. The parked goroutines are
// returned for the report.
func ParkedGoroutines(dump, marker string) (bool, string) {
	var kept, sleepers []string
	inMarker := marker == ""
	for _, blk := range strings.Split(strings.ReplaceAll(dump, "\r\n", "\n"), "\n\n") {
		blk = strings.TrimSpace(blk)
		m := goroutineHdr.FindStringSubmatch(strings.SplitN(blk, "\n", 2)[0])
		if m == nil {
			continue
		}
		own := false
		for _, f := range programFrames {
			if strings.Contains(blk, f) {
				own = true
			}
		}
		if !own {
			continue
		}
		st := m[1]
		switch {
		case strings.HasPrefix(st, "chan send"), strings.HasPrefix(st, "chan receive"), strings.HasPrefix(st, "select"), strings.HasPrefix(st, "semacquire"), strings.HasPrefix(st, "sync."):
			kept = append(kept, blk)
			if marker != "" && strings.Contains(blk, marker) {
				inMarker = true
			}
		case strings.HasPrefix(st, "sleep"):
			// a goroutine that sleeps between two looks at something (the
			// matching pipeline polls every millisecond for the end of its
			// workers): it cannot make anything happen by itself; it counts as
			// parked when goroutines parked for good are there as well
			sleepers = append(sleepers, blk)
		default:
			return false, ""
		}
	}
	if len(kept) == 0 || !inMarker {
		return false, ""
	}
	kept = append(kept, sleepers...)
	return true, strings.Join(kept, "\n\n")
}

// Guard runs fn (a call into the library) and watches it from outside: when,
// on two looks in a row two seconds apart, every goroutine that runs code of
// the library is parked and fn has not returned, the call can never return.
// The verdict comes from the goroutine states, not from the clock. The
// goroutine of fn is left behind in that case. A panic of fn is returned as
// with Try.
func Guard(fn func()) (pi *PanicInfo, parked string) {
	done := make(chan *PanicInfo, 1)
	go func() {
		var p *PanicInfo
		defer func() { done <- p }()
		p = Try(fn)
	}()
	hits := 0
	for {
		select {
		case pi = <-done:
			return pi, ""
		case <-time.After(2 * time.Second):
		}
		buf := make([]byte, 1<<22)
		dump := string(buf[:runtime.Stack(buf, true)])
		if ok, blocks := parkedLibrary(dump); ok {
			hits++
			// with a sleeping poller among them five looks in a row are asked
			// for (a goroutine that sleeps for microseconds at a hook point
			// could be caught asleep twice by chance, not five times with
			// nothing else running)
			need := 2
			if strings.Contains(blocks, " [sleep") {
				need = 5
			}
			if hits >= need {
				return nil, blocks
			}
		} else {
			hits = 0
		}
	}
}

// parkedLibrary: every goroutine with a frame of the library is parked (the
// harness goroutine that waits in Guard has none).
func parkedLibrary(dump string) (bool, string) {
	var kept, sleepers []string
	for _, blk := range strings.Split(dump, "\n\n") {
		blk = strings.TrimSpace(blk)
		m := goroutineHdr.FindStringSubmatch(strings.SplitN(blk, "\n", 2)[0])
		if m == nil || !strings.Contains(blk, modPrefix) {
			continue
		}
		st := m[1]
		switch {
		case strings.HasPrefix(st, "chan send"), strings.HasPrefix(st, "chan receive"), strings.HasPrefix(st, "select"), strings.HasPrefix(st, "semacquire"), strings.HasPrefix(st, "sync."):
			kept = append(kept, blk)
		case strings.HasPrefix(st, "sleep"):
			sleepers = append(sleepers, blk) // see ParkedGoroutines
		default:
			return false, ""
		}
	}
	if len(kept) == 0 {
		return false, ""
	}
	kept = append(kept, sleepers...)
	return true, strings.Join(kept, "\n\n")
}

// RunProcess runs a Go program under observation. cpuSeconds > 0 sets a CPU
// time limit (ulimit -t): a busy loop ends there whatever the machine load.
// A process that uses no CPU at all for idle consecutive samples is sent
// SIGQUIT; whether it was dead-locked is read off the goroutine dump it
// prints, not off the clock. watchdog is a generous wall-clock limit whose
// firing is inconclusive.
func RunProcess(bin string, args []string, env []string, cpuSeconds int, watchdog time.Duration) ProcResult {
	return RunProcessOpt(bin, args, env, cpuSeconds, watchdog, false)
}

// procAnyRunnable: some thread of the process is running, waiting for a
// processor (state R) or in uninterruptible sleep (D) right now.
func procAnyRunnable(pid int) bool {
	tasks, err := os.ReadDir(fmt.Sprintf("/proc/%d/task", pid))
	if err != nil {
		return false
	}
	for _, t := range tasks {
		b, err := os.ReadFile(fmt.Sprintf("/proc/%d/task/%s/stat", pid, t.Name()))
		if err != nil {
			continue
		}
		s := string(b)
		if i := strings.LastIndexByte(s, ')'); i >= 0 && i+2 < len(s) {
			if st := s[i+2]; st == 'R' || st == 'D' {
				return true
			}
		}
	}
	return false
}

// RunProcessOpt: with noIdle the zero-progress rule is off (the process is a
// tracer such as strace, which is idle whenever the program it traces
// computes); only the CPU limit and the wall-clock watchdog apply.
func RunProcessOpt(bin string, args []string, env []string, cpuSeconds int, watchdog time.Duration, noIdle bool) ProcResult {
	var cmd *exec.Cmd
	if cpuSeconds > 0 {
		sh := append([]string{"-c", fmt.Sprintf(`ulimit -t %d; exec "$0" "$@"`, cpuSeconds), bin}, args...)
		cmd = exec.Command("/bin/sh", sh...)
	} else {
		cmd = exec.Command(bin, args...)
	}
	if env != nil {
		cmd.Env = env
	}
	buf := &lockedBuffer{}
	cmd.Stdout, cmd.Stderr = buf, buf
	if err := cmd.Start(); err != nil {
		return ProcResult{Err: err}
	}
	done := make(chan error, 1)
	go func() { done <- cmd.Wait() }()
	const idleSamples = 24 // x 250 ms = 6 s without a single clock tick of CPU
	last, idle := int64(-1), 0
	var window []int64
	var runnable []bool
	start := time.Now()
	res := ProcResult{}
	for {
		select {
		case err := <-done:
			res.Out, res.Err = buf.String(), err
			if ee, ok := err.(*exec.ExitError); ok && res.Hang == "" {
				if ws, ok := ee.Sys().(syscall.WaitStatus); ok && ws.Signaled() && (ws.Signal() == syscall.SIGXCPU || ws.Signal() == syscall.SIGKILL) && cpuSeconds > 0 {
					res.Hang = "busy-loop"
				}
			}
			return res
		case <-time.After(250 * time.Millisecond):
		}
		if res.Hang != "" {
			if time.Since(start) > watchdog+30*time.Second {
				cmd.Process.Kill()
			}
			continue
		}
		if time.Since(start) > watchdog {
			res.Hang = "watchdog"
			cmd.Process.Signal(syscall.SIGQUIT)
			continue
		}
		t, ok := procCPUTicks(cmd.Process.Pid)
		if !ok {
			continue
		}
		// "No progress" is next to no CPU time over the last idleSamples samples
		// (at most 30 clock ticks, 5 % of one processor, in 6 s): a dead-locked
		// program may still have a ticker that redraws a progress bar, or a
		// goroutine that polls every millisecond for results that cannot come.
		// It only decides when to ask for the goroutine dump, not the verdict.
		// A healthy process that gets no processor on a loaded machine looks
		// the same by CPU time; its threads are runnable though (state R),
		// those of a blocked program sleep. Samples with a runnable thread
		// are counted: more than half of the window means starved, not stuck.
		window = append(window, t)
		runnable = append(runnable, procAnyRunnable(cmd.Process.Pid))
		if len(window) > idleSamples+1 {
			window = window[1:]
			runnable = runnable[1:]
		}
		idle = 0
		if !noIdle && len(window) == idleSamples+1 && t-window[0] <= 30 {
			nr := 0
			for _, x := range runnable {
				if x {
					nr++
				}
			}
			if nr*2 <= len(runnable) {
				idle = idleSamples
			}
		}
		_ = last
		if idle >= idleSamples {
			// ask the Go runtime for all goroutines; the process ends with the dump
			before := buf.Len()
			cmd.Process.Signal(syscall.SIGQUIT)
			select {
			case err := <-done:
				res.Out, res.Err = buf.String(), err
			case <-time.After(20 * time.Second):
				cmd.Process.Kill()
				err := <-done
				res.Out, res.Err = buf.String(), err
			}
			if before <= len(res.Out) {
				res.Dump = res.Out[before:]
			}
			if IsDeadlockDump(res.Dump) {
				res.Hang = "deadlock"
			} else {
				res.Hang = "idle"
			}
			return res
		}
	}
}
