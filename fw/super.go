package fw

import (
	"bufio"
	"context"
	"encoding/binary"
	"encoding/json"
	"fmt"
	"os"
	"os/exec"
	"path/filepath"
	"regexp"
	"runtime"
	"sort"
	"strconv"
	"strings"
	"sync"
	"syscall"
	"time"
)

// Super is the supervisor for one (property, tier, seed) run.
type Super struct {
	Prop     *Prop
	Tier     string
	Seed     uint64
	Root     string // /verif
	Dir      string // scratch directory for this run
	Exe      string // worker binary (this binary)
	Watchdog time.Duration
	start    time.Time
	mu       sync.Mutex
}

type batch struct {
	idx      int
	from, to int
}

func envSeed() uint64 {
	s := os.Getenv("VERIF_SEED")
	if s == "" {
		return 1
	}
	v, err := strconv.ParseUint(s, 10, 64)
	if err != nil {
		v = HashStr(s)
	}
	return v
}

// Main is the supervisor entry point. Returns the process exit code.
func SuperMain(propID, tier, replay string) int {
	p := Lookup(propID)
	if p == nil {
		fmt.Fprintf(os.Stderr, "unknown property %q (known: %v)\n", propID, IDs())
		return 2
	}
	root := os.Getenv("VERIF_ROOT")
	if root == "" {
		root, _ = os.Getwd()
	}
	exe, err := os.Executable()
	if err != nil {
		fmt.Fprintln(os.Stderr, err)
		return 2
	}
	s := &Super{Prop: p, Tier: tier, Seed: envSeed(), Root: root, Exe: exe, start: time.Now()}
	if replay != "" {
		return s.replay(replay)
	}
	s.Watchdog = 10 * time.Minute
	if tier == "thorough" {
		s.Watchdog = 60 * time.Minute
	}
	os.MkdirAll(filepath.Join(root, ".scratch"), 0o755)
	s.Dir, err = os.MkdirTemp(filepath.Join(root, ".scratch"), propID+"-")
	if err != nil {
		fmt.Fprintln(os.Stderr, err)
		return 2
	}
	if os.Getenv("VERIF_KEEP") == "" {
		defer os.RemoveAll(s.Dir)
	}
	return s.run()
}

// outRoot is where evidence and replays go: /verif, unless VERIF_OUT
// redirects them (used only for seeded-change experiments on scratch trees).
func (s *Super) outRoot() string {
	if o := os.Getenv("VERIF_OUT"); o != "" {
		return o
	}
	return s.Root
}

func (s *Super) run() int {
	p := s.Prop
	n := p.Cases(s.Tier, s.Seed)
	ncpu := runtime.NumCPU()
	maxw := ncpu
	if p.MaxWorkers > 0 && p.MaxWorkers < maxw {
		maxw = p.MaxWorkers
	}
	bs := 0
	if p.Batch != nil {
		bs = p.Batch(s.Tier, n)
	}
	if bs <= 0 {
		bs = (n + maxw*4 - 1) / (maxw * 4)
		if bs < 1 {
			bs = 1
		}
	}
	var batches []batch
	for from, k := 0, 0; from < n; from, k = from+bs, k+1 {
		to := from + bs
		if to > n {
			to = n
		}
		batches = append(batches, batch{k, from, to})
	}
	total := NewAgg()
	var wg sync.WaitGroup
	sem := make(chan struct{}, maxw)
	for _, b := range batches {
		b := b
		wg.Add(1)
		sem <- struct{}{}
		go func() {
			defer wg.Done()
			defer func() { <-sem }()
			a := s.runBatch(b)
			s.mu.Lock()
			total.Merge(a)
			s.mu.Unlock()
		}()
	}
	wg.Wait()
	if p.Extra != nil {
		p.Extra(s, total)
	}
	return s.finish(total, n)
}

var goroutineHdr = regexp.MustCompile(`^goroutine \d+ (?:gp=\S+ m=\S+ (?:mp=\S+ )?)?\[([^\],]+)`)

// runBatch runs one batch in a child process, restarting it after each
// process-fatal crash with the culprit case skipped.
func (s *Super) runBatch(b batch) *Agg {
	skip := map[int]bool{}
	var extra []Violation
	inconc := map[string]int64{}
	var herrs []string
	nonterm := 0
	for attempt := 0; ; attempt++ {
		out := filepath.Join(s.Dir, fmt.Sprintf("b%05d", b.idx))
		for _, suf := range []string{".marker", ".result.json", ".hashes", ".cpulimit", ".memlimit"} {
			os.Remove(out + suf)
		}
		old, _ := filepath.Glob(out + ".race.*")
		for _, f := range old {
			os.Remove(f)
		}
		logPath := out + fmt.Sprintf(".log%d", attempt)
		logf, err := os.Create(logPath)
		if err != nil {
			herrs = append(herrs, err.Error())
			break
		}
		var sk []string
		for k := range skip {
			sk = append(sk, strconv.Itoa(k))
		}
		ctx, cancel := context.WithTimeout(context.Background(), s.Watchdog)
		cmd := exec.Command(s.Exe, "-worker", "-prop", s.Prop.ID, "-tier", s.Tier, "-seed", strconv.FormatUint(s.Seed, 10),
			"-from", strconv.Itoa(b.from), "-to", strconv.Itoa(b.to), "-skip", strings.Join(sk, ","), "-out", out, "-cpulimit", strconv.Itoa(s.caseCPU()))
		cmd.Stdout = logf
		cmd.Stderr = logf
		cmd.Env = append(os.Environ(), "GOTRACEBACK=all", "VERIF_SCRATCH="+s.Dir)
		if s.Prop.Race {
			cmd.Env = append(cmd.Env, "GORACE=halt_on_error=0 exitcode=0 history_size=3 log_path="+out+".race")
		}
		timedOut := false
		err = cmd.Start()
		if err == nil {
			done := make(chan error, 1)
			go func() { done <- cmd.Wait() }()
			select {
			case err = <-done:
			case <-ctx.Done():
				timedOut = true
				cmd.Process.Signal(syscall.SIGQUIT)
				select {
				case err = <-done:
				case <-time.After(20 * time.Second):
					cmd.Process.Kill()
					err = <-done
				}
			}
		}
		cancel()
		logf.Close()
		res, rerr := readResult(out)
		if err == nil && rerr == nil {
			res.Violations = append(res.Violations, extra...)
			for k, v := range inconc {
				res.Inconclusive[k] += v
			}
			res.HarnessErrs = append(res.HarnessErrs, herrs...)
			if s.Prop.Race {
				s.collectRaces(out, b, res)
			}
			return res
		}
		// The worker died. Attribute to the case in the marker.
		culprit := readMarker(out)
		logText := tail(logPath, 200000)
		if culprit < 0 {
			herrs = append(herrs, fmt.Sprintf("batch %d: worker failed before/after cases (err=%v): %s", b.idx, err, firstLines(logText, 15)))
			break
		}
		if _, merr := os.Stat(out + ".memlimit"); merr == nil && !timedOut {
			// the case made the worker's memory grow beyond anything legitimate
			nonterm++
			extra = append(extra, Violation{Case: culprit, Sig: "resource-exhaustion:memory-limit@" + spinningFrame(logText), Detail: fmt.Sprintf("the worker's resident memory grew beyond %d MB while the case ran and it was stopped:\n%s", DefaultMemLimitMB, firstLines(memExcerpt(logText), 60))})
			if nonterm >= 3 {
				herrs = append(herrs, fmt.Sprintf("batch %d: 3 cases stopped at a resource limit; the remaining cases of the batch were not run", b.idx))
				break
			}
		} else if _, cerr := os.Stat(out + ".cpulimit"); cerr == nil && !timedOut {
			// the case burnt its whole CPU allowance: it does not terminate
			nonterm++
			extra = append(extra, Violation{Case: culprit, Sig: "nontermination:cpu-limit@" + spinningFrame(logText), Detail: fmt.Sprintf("the case used more than %d s of CPU time (orders of magnitude above any legitimate case) and was stopped:\n%s", s.caseCPU(), firstLines(cpuExcerpt(logText), 60))})
			if nonterm >= 3 {
				herrs = append(herrs, fmt.Sprintf("batch %d: 3 non-terminating cases; the remaining cases of the batch were not run", b.idx))
				break
			}
		} else if timedOut {
			if isDeadlock(logText) {
				extra = append(extra, Violation{Case: culprit, Sig: "deadlock@" + InnermostRepoFrame(logText), Detail: "watchdog fired and no goroutine was runnable:\n" + firstLines(logText, 60)})
			} else {
				inconc["watchdog"]++
				if inconc["watchdog"] >= 2 {
					// do not spend the watchdog once per remaining case
					inconc["not-run-after-two-watchdog-firings-in-the-batch"] += int64(b.to - b.from - len(skip) - 1)
					break
				}
			}
		} else {
			class, frame := classifyCrash(logText)
			extra = append(extra, Violation{Case: culprit, Sig: "fatal:" + class + "@" + frame, Detail: "worker process died while running this case:\n" + firstLines(crashExcerpt(logText), 40)})
		}
		skip[culprit] = true
		if len(skip) > 200 {
			herrs = append(herrs, fmt.Sprintf("batch %d: more than 200 process-fatal cases; giving up on the batch", b.idx))
			break
		}
	}
	a := NewAgg()
	a.Violations = extra
	a.Inconclusive = inconc
	a.HarnessErrs = herrs
	return a
}

func (s *Super) caseCPU() int {
	if s.Prop.CaseCPU > 0 {
		return s.Prop.CaseCPU
	}
	return 900
}

func cpuExcerpt(log string) string {
	if i := strings.Index(log, "CPU-LIMIT:"); i >= 0 {
		return log[i:]
	}
	if i := strings.Index(log, "MEMORY-LIMIT:"); i >= 0 {
		return log[i:]
	}
	return log
}

func memExcerpt(log string) string { return cpuExcerpt(log) }

// spinningFrame names the innermost in-repo function of a goroutine that was
// running or runnable when the CPU allowance ran out.
func spinningFrame(log string) string {
	log = cpuExcerpt(log)
	blocks := strings.Split(log, "\n\n")
	for _, want := range []string{"running", "runnable"} {
		for _, blk := range blocks {
			m := goroutineHdr.FindStringSubmatch(strings.TrimSpace(firstLines(strings.TrimSpace(blk), 1)))
			if m == nil || m[1] != want {
				continue
			}
			if f := InnermostRepoFrame(blk); f != "?" {
				return f
			}
		}
	}
	return InnermostRepoFrame(log)
}

func readResult(out string) (*Agg, error) {
	b, err := os.ReadFile(out + ".result.json")
	if err != nil {
		return nil, err
	}
	a := NewAgg()
	if err := json.Unmarshal(b, a); err != nil {
		return nil, err
	}
	hb, err := os.ReadFile(out + ".hashes")
	if err != nil {
		return nil, err
	}
	for i := 0; i+8 <= len(hb); i += 8 {
		a.hashSet[binary.LittleEndian.Uint64(hb[i:])] = struct{}{}
	}
	if a.Counters == nil {
		a.Counters = map[string]int64{}
	}
	if a.Classes == nil {
		a.Classes = map[string]map[string]int64{}
	}
	if a.Samples == nil {
		a.Samples = map[string][]interface{}{}
	}
	if a.Inconclusive == nil {
		a.Inconclusive = map[string]int64{}
	}
	return a, nil
}

func readMarker(out string) int {
	b, err := os.ReadFile(out + ".marker")
	if err != nil || len(b) < 8 {
		return -1
	}
	v := binary.LittleEndian.Uint64(b)
	if v == 0 {
		return -1
	}
	return int(v - 1)
}

func tail(path string, max int64) string {
	f, err := os.Open(path)
	if err != nil {
		return ""
	}
	defer f.Close()
	st, _ := f.Stat()
	// keep the head (where the fatal message is) and the tail
	if st.Size() <= max {
		b, _ := os.ReadFile(path)
		return string(b)
	}
	head := make([]byte, max/2)
	f.Read(head)
	tl := make([]byte, max/2)
	f.ReadAt(tl, st.Size()-max/2)
	return string(head) + "\n...\n" + string(tl)
}

func firstLines(s string, n int) string {
	lines := strings.Split(s, "\n")
	if len(lines) > n {
		lines = lines[:n]
	}
	return strings.Join(lines, "\n")
}

func crashExcerpt(log string) string {
	for _, key := range []string{"fatal error:", "panic:", "runtime: goroutine stack exceeds"} {
		if i := strings.Index(log, key); i >= 0 {
			return log[i:]
		}
	}
	return log
}

func classifyCrash(log string) (class, frame string) {
	ex := crashExcerpt(log)
	line := firstLines(ex, 1)
	switch {
	case strings.Contains(log, "goroutine stack exceeds") || strings.Contains(line, "stack overflow"):
		class = "stack-overflow"
	case strings.HasPrefix(line, "fatal error:"):
		class = PanicClass(strings.TrimSpace(strings.TrimPrefix(line, "fatal error:")))
	case strings.HasPrefix(line, "panic:"):
		class = "panic:" + PanicClass(strings.TrimSpace(strings.TrimPrefix(line, "panic:")))
	default:
		class = "died"
	}
	return class, InnermostRepoFrame(ex)
}

func isDeadlock(dump string) bool { return IsDeadlockDump(dump) }

// ---- race logs ----

var raceAccessHdr = regexp.MustCompile(`^(Write|Read|Previous write|Previous read|Atomic write|Previous atomic write|Atomic read|Previous atomic read) at 0x[0-9a-f]+ by `)

type RaceReport struct {
	WriteSites []string
	ReadSites  []string
	Text       string
}

func (r RaceReport) Sig() string {
	w := append([]string{}, r.WriteSites...)
	sort.Strings(w)
	w = uniq(w)
	return "race:write@" + strings.Join(w, "+")
}

func uniq(s []string) []string {
	var o []string
	for i, x := range s {
		if i == 0 || x != s[i-1] {
			o = append(o, x)
		}
	}
	return o
}

func ParseRaceLog(text string) []RaceReport {
	var reps []RaceReport
	blocks := strings.Split(text, "WARNING: DATA RACE")
	for _, blk := range blocks[1:] {
		if i := strings.Index(blk, "=================="); i >= 0 {
			blk = blk[:i]
		}
		var rep RaceReport
		rep.Text = "WARNING: DATA RACE" + blk
		lines := strings.Split(blk, "\n")
		for i := 0; i < len(lines); i++ {
			m := raceAccessHdr.FindStringSubmatch(lines[i])
			if m == nil {
				continue
			}
			isWrite := strings.Contains(strings.ToLower(m[1]), "write")
			// frames follow: "  func()\n      file:line +0x.."
			site := "?"
			for j := i + 1; j < len(lines); j++ {
				l := strings.TrimSpace(lines[j])
				if l == "" {
					break
				}
				if strings.HasPrefix(l, modPrefix) {
					fn := strings.TrimPrefix(strings.TrimPrefix(strings.TrimPrefix(l, modPrefix), "/"), ".")
					if k := strings.LastIndex(fn, "("); k > 0 && strings.HasSuffix(fn, ")") && !strings.HasSuffix(fn[:k], ".") {
						if fn[k:] == "()" {
							fn = fn[:k]
						}
					}
					site = fn
					break
				}
			}
			if isWrite {
				rep.WriteSites = append(rep.WriteSites, site)
			} else {
				rep.ReadSites = append(rep.ReadSites, site)
			}
		}
		reps = append(reps, rep)
	}
	return reps
}

func (s *Super) collectRaces(out string, b batch, res *Agg) {
	files, _ := filepath.Glob(out + ".race.*")
	for _, f := range files {
		data, err := os.ReadFile(f)
		if err != nil {
			continue
		}
		for _, rep := range ParseRaceLog(string(data)) {
			res.Counters["race_reports"]++
			res.Violations = append(res.Violations, Violation{Case: -1, Sig: rep.Sig(), Detail: firstLines(rep.Text, 60),
				Payload: map[string]interface{}{"batch_from": b.from, "batch_to": b.to, "read_sites": rep.ReadSites}})
		}
	}
}

// ---- known findings, evidence, exit code ----

type KnownFinding struct {
	Property  string      `json:"property"`
	Status    string      `json:"status"` // known | fixed
	Signature string      `json:"signature,omitempty"`
	SigRegexp string      `json:"signature_re,omitempty"`
	What      string      `json:"what"`
	Commit    string      `json:"commit,omitempty"`
	Witness   interface{} `json:"witness,omitempty"`
	re        *regexp.Regexp
}

func LoadKnown(root, prop string) ([]*KnownFinding, error) {
	f, err := os.Open(filepath.Join(root, "KNOWN_FINDINGS.jsonl"))
	if err != nil {
		if os.IsNotExist(err) {
			return nil, nil
		}
		return nil, err
	}
	defer f.Close()
	var out []*KnownFinding
	sc := bufio.NewScanner(f)
	sc.Buffer(make([]byte, 1<<20), 1<<22)
	ln := 0
	for sc.Scan() {
		ln++
		t := strings.TrimSpace(sc.Text())
		if t == "" || strings.HasPrefix(t, "#") {
			continue
		}
		k := &KnownFinding{}
		if err := json.Unmarshal([]byte(t), k); err != nil {
			return nil, fmt.Errorf("KNOWN_FINDINGS.jsonl:%d: %v", ln, err)
		}
		if k.Property != prop || k.Status != "known" {
			continue
		}
		if k.SigRegexp != "" {
			k.re, err = regexp.Compile("^(?:" + k.SigRegexp + ")$")
			if err != nil {
				return nil, fmt.Errorf("KNOWN_FINDINGS.jsonl:%d: %v", ln, err)
			}
		}
		out = append(out, k)
	}
	return out, nil
}

func (k *KnownFinding) Matches(sig string) bool {
	if k.re != nil {
		return k.re.MatchString(sig)
	}
	return k.Signature == sig
}

func sigFile(sig string) string {
	var b strings.Builder
	for _, r := range sig {
		if (r >= 'a' && r <= 'z') || (r >= 'A' && r <= 'Z') || (r >= '0' && r <= '9') || r == '-' || r == '_' || r == '.' {
			b.WriteRune(r)
		} else {
			b.WriteByte('_')
		}
	}
	s := b.String()
	if len(s) > 80 {
		s = s[:80]
	}
	return fmt.Sprintf("%s-%08x", s, HashStr(sig)&0xffffffff)
}

func (s *Super) finish(a *Agg, n int) int {
	p := s.Prop
	known, err := LoadKnown(s.Root, p.ID)
	if err != nil {
		fmt.Fprintln(os.Stderr, "harness error:", err)
		return 2
	}
	// group violations by signature
	bySig := map[string][]Violation{}
	var sigs []string
	for _, v := range a.Violations {
		if _, ok := bySig[v.Sig]; !ok {
			sigs = append(sigs, v.Sig)
		}
		bySig[v.Sig] = append(bySig[v.Sig], v)
	}
	sort.Strings(sigs)
	newViol := 0
	knownSeen := map[*KnownFinding]int{}
	knownSigs := map[string]int{}
	var out []string
	for _, sig := range sigs {
		vs := bySig[sig]
		sort.Slice(vs, func(i, j int) bool { return vs[i].Case < vs[j].Case })
		var kf *KnownFinding
		for _, k := range known {
			if k.Matches(sig) {
				kf = k
				break
			}
		}
		if kf != nil {
			knownSeen[kf] += len(vs)
			knownSigs[sig] = len(vs)
			continue
		}
		newViol += len(vs)
		v := vs[0]
		dir := filepath.Join(s.outRoot(), "replays", p.ID)
		os.MkdirAll(dir, 0o755)
		path := filepath.Join(dir, sigFile(sig)+".json")
		rp := map[string]interface{}{
			"property": p.ID, "tier": s.Tier, "seed": s.Seed, "case": v.Case, "signature": sig,
			"detail": v.Detail, "payload": v.Payload, "occurrences": len(vs),
			"replay": fmt.Sprintf("./run.sh %s --replay %s", p.ID, path),
		}
		b, _ := json.MarshalIndent(rp, "", " ")
		os.WriteFile(path, b, 0o644)
		out = append(out, fmt.Sprintf("VIOLATION property=%s replay=%s", p.ID, path))
		fmt.Printf("  [%s] x%d first case %d: %s\n", sig, len(vs), v.Case, firstLines(v.Detail, 6))
	}
	for _, k := range known {
		// every listed finding is reported on every run, with what this run saw of it
		if c := knownSeen[k]; c > 0 {
			fmt.Printf("KNOWN-FINDING: property=%s %s (reproduced in %d cases this run)\n", p.ID, k.What, c)
		} else {
			fmt.Printf("KNOWN-FINDING: property=%s %s (listed; not reproduced by the cases of this run)\n", p.ID, k.What)
		}
	}
	for _, l := range out {
		fmt.Println(l)
	}
	var floors []string
	if p.Floors != nil {
		floors = p.Floors(a, s.Tier)
	}
	if a.Distinct < 2 {
		floors = append(floors, fmt.Sprintf("distinct_nontrivial=%d < 2", a.Distinct))
	}
	inc := a.TotalInconclusive()
	s.writeEvidence(a, n, newViol, knownSigs, floors)
	fmt.Printf("%s %s seed=%d: cases=%d evaluations=%d distinct_nontrivial=%d violations=%d known=%d inconclusive=%d wall=%.1fs\n",
		p.ID, s.Tier, s.Seed, n, a.Evaluations, a.Distinct, newViol, len(knownSigs), inc, time.Since(s.start).Seconds())
	if newViol > 0 {
		return 1
	}
	if len(a.HarnessErrs) > 0 {
		for i, e := range a.HarnessErrs {
			if i < 5 {
				fmt.Fprintln(os.Stderr, "HARNESS ERROR:", e)
			}
		}
		return 2
	}
	if len(floors) > 0 {
		for _, f := range floors {
			fmt.Fprintln(os.Stderr, "COVERAGE FLOOR NOT MET:", f)
		}
		return 2
	}
	if inc*100 > int64(n) && inc > 2 {
		fmt.Fprintf(os.Stderr, "too many inconclusive cases: %d of %d %v\n", inc, n, a.Inconclusive)
		return 3
	}
	return 0
}

func (s *Super) writeEvidence(a *Agg, n, newViol int, knownSigs map[string]int, floors []string) {
	p := s.Prop
	var samples []interface{}
	var kinds []string
	for k := range a.Samples {
		kinds = append(kinds, k)
	}
	sort.Strings(kinds)
	for _, k := range kinds {
		for _, v := range a.Samples[k] {
			if len(samples) < 8 {
				samples = append(samples, map[string]interface{}{"kind": k, "case": v})
			}
		}
	}
	if len(samples) == 0 {
		samples = append(samples, "no sample recorded")
	}
	classes := map[string]interface{}{}
	for g, m := range a.Classes {
		if len(m) <= 60 {
			classes[g] = m
		} else {
			classes[g] = map[string]interface{}{"distinct": len(m)}
		}
	}
	level := p.Level
	if level == "" {
		level = "exploration"
	}
	cov := map[string]interface{}{
		"evaluations":            a.Evaluations,
		"distinct_nontrivial":    a.Distinct,
		"rule":                   p.Rule,
		"samples":                samples,
		"cases_in_list":          n,
		"monitor_counters":       a.Counters,
		"observed_classes":       classes,
		"inconclusive":           a.Inconclusive,
		"known_findings_seen":    knownSigs,
		"coverage_floors_failed": floors,
		"exhaustive":             p.Exhaustive != nil && p.Exhaustive(s.Tier),
	}
	ev := map[string]interface{}{
		"property_id": p.ID,
		"tier":        s.Tier,
		"seed":        s.Seed,
		"level":       level,
		"coverage":    cov,
		"assumptions": p.Assumptions,
		"wall_s":      time.Since(s.start).Seconds(),
		"violations":  newViol,
	}
	b, _ := json.MarshalIndent(ev, "", " ")
	os.MkdirAll(filepath.Join(s.outRoot(), "evidence"), 0o755)
	os.WriteFile(filepath.Join(s.outRoot(), "evidence", p.ID+".json"), b, 0o644)
}

// replay re-runs the single case recorded in a replay file, in a child
// process (it may be process-fatal), verbosely.
func (s *Super) replay(path string) int {
	b, err := os.ReadFile(path)
	if err != nil {
		fmt.Fprintln(os.Stderr, err)
		return 2
	}
	var rp struct {
		Property string                 `json:"property"`
		Tier     string                 `json:"tier"`
		Seed     uint64                 `json:"seed"`
		Case     int                    `json:"case"`
		Sig      string                 `json:"signature"`
		Payload  map[string]interface{} `json:"payload"`
	}
	if err := json.Unmarshal(b, &rp); err != nil {
		fmt.Fprintln(os.Stderr, err)
		return 2
	}
	from, to := rp.Case, rp.Case+1
	if rp.Case < 0 && rp.Payload != nil {
		if f, ok := rp.Payload["batch_from"].(float64); ok {
			from = int(f)
		}
		if t, ok := rp.Payload["batch_to"].(float64); ok {
			to = int(t)
		}
	}
	fmt.Printf("replaying %s %s seed=%d cases [%d,%d) expecting %s\n", rp.Property, rp.Tier, rp.Seed, from, to, rp.Sig)
	cmd := exec.Command(s.Exe, "-worker", "-prop", rp.Property, "-tier", rp.Tier, "-seed", strconv.FormatUint(rp.Seed, 10),
		"-from", strconv.Itoa(from), "-to", strconv.Itoa(to), "-verbose")
	cmd.Stdout = os.Stdout
	cmd.Stderr = os.Stderr
	cmd.Env = append(os.Environ(), "GOTRACEBACK=all")
	if s.Prop.Race {
		cmd.Env = append(cmd.Env, "GORACE=halt_on_error=0")
	}
	if err := cmd.Run(); err != nil {
		fmt.Printf("worker exited: %v\n", err)
		return 1
	}
	return 0
}
