package fw

import (
	"encoding/json"
	"fmt"
	"runtime/debug"
	"sort"
	"strings"
)

// Prop is one property check: a deterministic case list (a function of tier
// and seed only) and an oracle that runs one case against the real code.
type Prop struct {
	ID    string
	Title string
	// Race: the worker must be the -race build and race logs are parsed.
	Race bool
	// NeedsCLI: the supervisor builds /repo/cmd/gedcom and exports its path.
	NeedsCLI bool
	// Cases is the number of cases for (tier, seed).
	Cases func(tier string, seed uint64) int
	// Run executes case i. It reports through the Ctx.
	Run func(c *Ctx, i int)
	// Floors is evaluated by the supervisor on the aggregate: returns
	// human-readable failures when the run observed too little to count.
	Floors func(a *Agg, tier string) []string
	// Extra is an optional supervisor-side step run after all batches
	// (e.g. native fuzzing). It may add violations/counters to the Agg.
	Extra func(s *Super, a *Agg)
	// Batch: cases per worker process (0 = automatic).
	Batch func(tier string, n int) int
	// MaxWorkers caps the number of concurrent worker processes (0 = NumCPU).
	MaxWorkers int
	// CaseCPU is the CPU time (seconds, process-wide) one case may burn before
	// the worker declares it non-terminating (0 = 900). It is a measure of work
	// done, not of wall-clock time, so it does not depend on the machine load;
	// it must be orders of magnitude above what a case legitimately needs.
	CaseCPU int
	// Evidence texts.
	Rule        string
	Level       string // exploration | fault_enumeration ...
	Exhaustive  func(tier string) bool
	Assumptions []string
	// PanicIsViolation: a panic that escapes Run from library code is a
	// property violation (true for all properties here; kept explicit).
}

var registry = map[string]*Prop{}

func Register(p *Prop) {
	if _, dup := registry[p.ID]; dup {
		panic("duplicate property " + p.ID)
	}
	registry[p.ID] = p
}

func Lookup(id string) *Prop { return registry[id] }

func IDs() []string {
	var ids []string
	for id := range registry {
		ids = append(ids, id)
	}
	sort.Strings(ids)
	return ids
}

// Violation is one refuting observation.
type Violation struct {
	Case    int         `json:"case"`
	Sig     string      `json:"signature"`
	Detail  string      `json:"detail"`
	Payload interface{} `json:"payload,omitempty"`
}

// Agg is what a worker (and, merged, the supervisor) accumulates.
type Agg struct {
	Evaluations  int64                       `json:"evaluations"`
	Counters     map[string]int64            `json:"counters"`
	Classes      map[string]map[string]int64 `json:"classes"`
	Samples      map[string][]interface{}    `json:"samples"`
	Violations   []Violation                 `json:"violations"`
	Inconclusive map[string]int64            `json:"inconclusive"`
	HarnessErrs  []string                    `json:"harness_errors"`
	Hashes       []uint64                    `json:"-"`
	hashSet      map[uint64]struct{}
	Distinct     int64 `json:"distinct"`
}

func NewAgg() *Agg {
	return &Agg{
		Counters:     map[string]int64{},
		Classes:      map[string]map[string]int64{},
		Samples:      map[string][]interface{}{},
		Inconclusive: map[string]int64{},
		hashSet:      map[uint64]struct{}{},
	}
}

func (a *Agg) Merge(b *Agg) {
	a.Evaluations += b.Evaluations
	for k, v := range b.Counters {
		if strings.HasPrefix(k, "peak-") { // a maximum, not a sum
			if v > a.Counters[k] {
				a.Counters[k] = v
			}
			continue
		}
		a.Counters[k] += v
	}
	for g, m := range b.Classes {
		if a.Classes[g] == nil {
			a.Classes[g] = map[string]int64{}
		}
		for k, v := range m {
			a.Classes[g][k] += v
		}
	}
	for k, v := range b.Samples {
		for _, s := range v {
			if len(a.Samples[k]) < 2 {
				a.Samples[k] = append(a.Samples[k], s)
			}
		}
	}
	a.Violations = append(a.Violations, b.Violations...)
	for k, v := range b.Inconclusive {
		a.Inconclusive[k] += v
	}
	a.HarnessErrs = append(a.HarnessErrs, b.HarnessErrs...)
	for _, h := range b.Hashes {
		a.hashSet[h] = struct{}{}
	}
	for h := range b.hashSet {
		a.hashSet[h] = struct{}{}
	}
	a.Distinct = int64(len(a.hashSet))
}

func (a *Agg) ClassCount(group string) int { return len(a.Classes[group]) }

func (a *Agg) Class(group, name string) int64 {
	if a.Classes[group] == nil {
		return 0
	}
	return a.Classes[group][name]
}

func (a *Agg) TotalInconclusive() int64 {
	var n int64
	for _, v := range a.Inconclusive {
		n += v
	}
	return n
}

// Ctx is handed to Prop.Run for one case.
type Ctx struct {
	Prop    *Prop
	Tier    string
	Seed    uint64
	Case    int
	R       *Rand
	Verbose bool
	agg     *Agg
}

func (c *Ctx) Thorough() bool { return c.Tier == "thorough" }

func (c *Ctx) Violation(sig, detail string, payload interface{}) {
	if len(detail) > 4000 {
		detail = detail[:4000] + "...(truncated)"
	}
	c.agg.Violations = append(c.agg.Violations, Violation{Case: c.Case, Sig: sig, Detail: detail, Payload: payload})
	if c.Verbose {
		fmt.Printf("  violation %s\n    %s\n", sig, strings.ReplaceAll(detail, "\n", "\n    "))
	}
}

func (c *Ctx) Violationf(sig string, payload interface{}, format string, args ...interface{}) {
	c.Violation(sig, fmt.Sprintf(format, args...), payload)
}

func (c *Ctx) Count(key string, n int64) { c.agg.Counters[key] += n }

func (c *Ctx) Class(group, name string) {
	m := c.agg.Classes[group]
	if m == nil {
		m = map[string]int64{}
		c.agg.Classes[group] = m
	}
	m[name]++
}

// Nontrivial records one distinct non-trivial case (by hash of its canonical form).
func (c *Ctx) Nontrivial(h uint64)     { c.agg.hashSet[h] = struct{}{} }
func (c *Ctx) NontrivialStr(s string)  { c.agg.hashSet[HashStr(s)] = struct{}{} }
func (c *Ctx) Eval(n int64)            { c.agg.Evaluations += n }
func (c *Ctx) Inconclusive(why string) { c.agg.Inconclusive[why]++ }
func (c *Ctx) HarnessError(msg string) { c.agg.HarnessErrs = append(c.agg.HarnessErrs, msg) }

// Sample keeps up to two actual cases per kind for the evidence file.
func (c *Ctx) Sample(kind string, v interface{}) {
	if len(c.agg.Samples[kind]) < 2 {
		c.agg.Samples[kind] = append(c.agg.Samples[kind], v)
	}
}

func (c *Ctx) WantSample(kind string) bool { return len(c.agg.Samples[kind]) < 2 }

func (c *Ctx) Logf(format string, args ...interface{}) {
	if c.Verbose {
		fmt.Printf(format+"\n", args...)
	}
}

// PanicInfo classifies a recovered panic value and stack.
type PanicInfo struct {
	Class string // normalised message class
	Frame string // innermost frame inside the gedcom module
	Msg   string
	InLib bool
}

func (p PanicInfo) Sig() string { return "panic:" + p.Class + "@" + p.Frame }

// Try runs f and returns a PanicInfo if it panicked (nil otherwise).
func Try(f func()) (pi *PanicInfo) {
	defer func() {
		if r := recover(); r != nil {
			info := ClassifyPanic(r, string(debug.Stack()))
			pi = &info
		}
	}()
	f()
	return nil
}

const modPrefix = "github.com/elliotchance/gedcom/v39"

func ClassifyPanic(r interface{}, stack string) PanicInfo {
	msg := fmt.Sprint(r)
	return PanicInfo{Class: PanicClass(msg), Frame: InnermostRepoFrame(stack), Msg: msg, InLib: strings.Contains(stack, modPrefix)}
}

// PanicClass strips variable parts (numbers, quoted text, addresses) from a panic message.
func PanicClass(msg string) string {
	if i := strings.IndexByte(msg, '\n'); i >= 0 {
		msg = msg[:i]
	}
	var b strings.Builder
	inDigits := false
	for _, r := range msg {
		if r >= '0' && r <= '9' {
			if !inDigits {
				b.WriteByte('N')
				inDigits = true
			}
			continue
		}
		inDigits = false
		b.WriteRune(r)
	}
	s := b.String()
	// Known message families whose tail is input-dependent.
	for _, pre := range []string{"indent is too large", "cannot create", "interface conversion", "reflect:", "runtime error: index out of range", "runtime error: slice bounds out of range", "runtime error: invalid memory address"} {
		if strings.HasPrefix(s, pre) {
			switch pre {
			case "cannot create":
				// keep "cannot create X without a family"
				return s
			case "interface conversion", "reflect:":
				if len(s) > 90 {
					s = s[:90]
				}
				return s
			}
			return pre
		}
	}
	if len(s) > 80 {
		s = s[:80]
	}
	return s
}

// InnermostRepoFrame returns the function name of the first stack frame
// (innermost) that belongs to the gedcom module, without line numbers.
func InnermostRepoFrame(stack string) string {
	for _, line := range strings.Split(stack, "\n") {
		line = strings.TrimSpace(line)
		if strings.HasPrefix(line, modPrefix) {
			fn := strings.TrimPrefix(line, modPrefix)
			fn = strings.TrimPrefix(fn, "/")
			fn = strings.TrimPrefix(fn, ".")
			if i := strings.LastIndex(fn, "("); i > 0 && strings.HasSuffix(fn, ")") {
				// strip argument list "(0x..., ...)" but keep receiver "(*T)"
				if strings.Contains(fn[i:], "0x") || fn[i:] == "()" || strings.Contains(fn[i:], "...") || strings.Contains(fn[i:], "{") {
					fn = fn[:i]
				}
			}
			return fn
		}
	}
	return "?"
}

func JSON(v interface{}) string {
	b, _ := json.Marshal(v)
	return string(b)
}
