package fw

// Deterministic PRNG (splitmix64). Every random choice of every generator is
// drawn from one of these; case i of property P uses the stream seeded with
// Mix(seed, P, i) so that a case can be reproduced alone.

type Rand struct{ s uint64 }

func NewRand(seed uint64) *Rand { return &Rand{s: seed} }

func (r *Rand) U64() uint64 {
	r.s += 0x9e3779b97f4a7c15
	z := r.s
	z = (z ^ (z >> 30)) * 0xbf58476d1ce4e5b9
	z = (z ^ (z >> 27)) * 0x94d049bb133111eb
	return z ^ (z >> 31)
}

// Intn returns a value in [0,n). n<=0 returns 0.
func (r *Rand) Intn(n int) int {
	if n <= 0 {
		return 0
	}
	return int(r.U64() % uint64(n))
}

// Range returns a value in [lo,hi] inclusive.
func (r *Rand) Range(lo, hi int) int {
	if hi <= lo {
		return lo
	}
	return lo + r.Intn(hi-lo+1)
}

func (r *Rand) Bool() bool { return r.U64()&1 == 1 }

// Chance is true with probability num/den.
func (r *Rand) Chance(num, den int) bool { return r.Intn(den) < num }

func (r *Rand) Float() float64 { return float64(r.U64()>>11) / float64(1<<53) }

func (r *Rand) Pick(ss []string) string {
	if len(ss) == 0 {
		return ""
	}
	return ss[r.Intn(len(ss))]
}

func (r *Rand) Perm(n int) []int {
	p := make([]int, n)
	for i := range p {
		p[i] = i
	}
	for i := n - 1; i > 0; i-- {
		j := r.Intn(i + 1)
		p[i], p[j] = p[j], p[i]
	}
	return p
}

// Fork derives an independent stream.
func (r *Rand) Fork() *Rand { return NewRand(r.U64() ^ 0xa5a5a5a5deadbeef) }

func HashStr(s string) uint64 {
	h := uint64(14695981039346656037)
	for i := 0; i < len(s); i++ {
		h ^= uint64(s[i])
		h *= 1099511628211
	}
	return h
}

func Mix(a ...uint64) uint64 {
	r := NewRand(0x1234567)
	var h uint64
	for _, x := range a {
		r.s ^= x
		h = r.U64() ^ (h << 1)
	}
	return h
}

// Shuffle permutes n items in place (Fisher-Yates).
func (r *Rand) Shuffle(n int, swap func(i, j int)) {
	for i := n - 1; i > 0; i-- {
		swap(i, r.Intn(i+1))
	}
}
