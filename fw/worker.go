package fw

import (
	"encoding/binary"
	"encoding/json"
	"fmt"
	"os"
	"runtime/debug"
	"strings"
)

// WorkerArgs describes one batch.
type WorkerArgs struct {
	Prop    string
	Tier    string
	Seed    uint64
	From    int
	To      int // exclusive
	Skip    map[int]bool
	Out     string // path prefix for marker/result/hashes
	Verbose bool
}

func CaseRand(seed uint64, prop string, i int) *Rand {
	return NewRand(Mix(seed, HashStr(prop), uint64(i)))
}

// RunWorker executes cases [From,To) in this process. Before each case the
// case index is written to the marker file, so that a process-fatal crash
// (stack overflow, concurrent map write, runtime throw) is attributable.
func RunWorker(a WorkerArgs) int {
	p := Lookup(a.Prop)
	if p == nil {
		fmt.Fprintf(os.Stderr, "unknown property %s\n", a.Prop)
		return 2
	}
	agg := NewAgg()
	var marker *os.File
	if a.Out != "" {
		var err error
		marker, err = os.OpenFile(a.Out+".marker", os.O_CREATE|os.O_WRONLY|os.O_TRUNC, 0o644)
		if err != nil {
			fmt.Fprintln(os.Stderr, err)
			return 2
		}
		defer marker.Close()
	}
	var buf [8]byte
	for i := a.From; i < a.To; i++ {
		if a.Skip[i] {
			continue
		}
		if marker != nil {
			binary.LittleEndian.PutUint64(buf[:], uint64(i)+1)
			marker.WriteAt(buf[:], 0)
		}
		c := &Ctx{Prop: p, Tier: a.Tier, Seed: a.Seed, Case: i, R: CaseRand(a.Seed, a.Prop, i), Verbose: a.Verbose, agg: agg}
		runCase(p, c, i)
	}
	if marker != nil {
		binary.LittleEndian.PutUint64(buf[:], 0)
		marker.WriteAt(buf[:], 0)
	}
	if a.Out == "" {
		b, _ := json.MarshalIndent(agg, "", " ")
		fmt.Println(string(b))
		if len(agg.Violations) > 0 {
			return 1
		}
		return 0
	}
	agg.Distinct = int64(len(agg.hashSet))
	hb := make([]byte, 0, 8*len(agg.hashSet))
	for h := range agg.hashSet {
		hb = binary.LittleEndian.AppendUint64(hb, h)
	}
	if err := os.WriteFile(a.Out+".hashes", hb, 0o644); err != nil {
		fmt.Fprintln(os.Stderr, err)
		return 2
	}
	b, err := json.Marshal(agg)
	if err != nil {
		fmt.Fprintln(os.Stderr, "marshal result:", err)
		return 2
	}
	if err := os.WriteFile(a.Out+".result.json", b, 0o644); err != nil {
		fmt.Fprintln(os.Stderr, err)
		return 2
	}
	return 0
}

func runCase(p *Prop, c *Ctx, i int) {
	defer func() {
		if r := recover(); r != nil {
			stack := string(debug.Stack())
			info := ClassifyPanic(r, stack)
			if !info.InLib || panicInHarness(stack) {
				c.HarnessError(fmt.Sprintf("case %d: harness panic: %v\n%s", i, r, trimStack(stack)))
				return
			}
			c.Violation(info.Sig(), fmt.Sprintf("uncaught panic in library code: %s\n%s", info.Msg, trimStack(stack)), nil)
		}
	}()
	p.Run(c, i)
	c.agg.Evaluations++
}

// panicInHarness: the innermost non-runtime frame belongs to the harness.
func panicInHarness(stack string) bool {
	lines := strings.Split(stack, "\n")
	seenPanic := false
	for _, l := range lines {
		l = strings.TrimSpace(l)
		if strings.HasPrefix(l, "panic(") {
			seenPanic = true
			continue
		}
		if !seenPanic {
			continue
		}
		if strings.HasPrefix(l, "/") || l == "" {
			continue
		}
		if strings.HasPrefix(l, "runtime.") || strings.HasPrefix(l, "reflect.") || strings.HasPrefix(l, "strings.") || strings.HasPrefix(l, "sort.") || strings.HasPrefix(l, "regexp.") || strings.HasPrefix(l, "sync.") || strings.HasPrefix(l, "fmt.") || strings.HasPrefix(l, "bytes.") || strings.HasPrefix(l, "encoding/") || strings.HasPrefix(l, "text/") || strings.HasPrefix(l, "html.") {
			continue
		}
		return strings.HasPrefix(l, "verif/")
	}
	return false
}

func trimStack(s string) string {
	lines := strings.Split(s, "\n")
	if len(lines) > 40 {
		lines = lines[:40]
	}
	return strings.Join(lines, "\n")
}
