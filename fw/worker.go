package fw

import (
	"encoding/binary"
	"encoding/json"
	"fmt"
	"os"
	"runtime"
	"runtime/debug"
	"strconv"
	"strings"
	"sync/atomic"
	"syscall"
	"time"
)

// ExitCPULimit is the exit status of a worker whose current case burnt its
// whole CPU allowance (a busy loop: the case does not terminate).
const ExitCPULimit = 97

// ExitMemLimit is the exit status of a worker whose resident memory grew
// beyond its allowance while a case was running.
const ExitMemLimit = 96

// DefaultMemLimitMB: resident memory one worker may use. The largest
// legitimate cases stay far below it (the peak is recorded in the evidence as
// counter peak-worker-rss-mb); 16 workers at the limit still fit the machine.
const DefaultMemLimitMB = 3072

func residentMB() int64 {
	b, err := os.ReadFile("/proc/self/statm")
	if err != nil {
		return 0
	}
	f := strings.Fields(string(b))
	if len(f) < 2 {
		return 0
	}
	pages, _ := strconv.ParseInt(f[1], 10, 64)
	return pages * int64(os.Getpagesize()) >> 20
}

var peakMB int64

func processCPU() time.Duration {
	var ru syscall.Rusage
	if syscall.Getrusage(syscall.RUSAGE_SELF, &ru) != nil {
		return 0
	}
	return time.Duration(ru.Utime.Nano() + ru.Stime.Nano())
}

// cpuWatch ends the process when the case that is running has used more than
// limit of CPU time since it started. The goroutine dump goes to stderr (the
// batch log) so that the supervisor can name the function that is spinning.
func cpuWatch(limit time.Duration, caseStart *int64, out string) {
	for tick := 0; ; tick++ {
		time.Sleep(50 * time.Millisecond)
		start := time.Duration(atomic.LoadInt64(caseStart))
		if start < 0 {
			continue
		}
		if mb := residentMB(); mb > atomic.LoadInt64(&peakMB) {
			atomic.StoreInt64(&peakMB, mb)
			if mb > DefaultMemLimitMB {
				buf := make([]byte, 1<<20)
				n := runtime.Stack(buf, true)
				fmt.Fprintf(os.Stderr, "\nMEMORY-LIMIT: resident memory %d MB while the case ran (allowance %d MB); goroutines:\n%s\n", mb, DefaultMemLimitMB, buf[:n])
				if out != "" {
					os.WriteFile(out+".memlimit", []byte(fmt.Sprint(mb)), 0o644)
				}
				os.Exit(ExitMemLimit)
			}
		}
		if tick%5 != 0 {
			continue
		}
		if used := processCPU() - start; used > limit {
			buf := make([]byte, 1<<22)
			n := runtime.Stack(buf, true)
			fmt.Fprintf(os.Stderr, "\nCPU-LIMIT: the running case used %.0fs of CPU (allowance %.0fs); goroutines:\n%s\n", used.Seconds(), limit.Seconds(), buf[:n])
			if out != "" {
				os.WriteFile(out+".cpulimit", []byte(fmt.Sprintf("%.0f", used.Seconds())), 0o644)
			}
			os.Exit(ExitCPULimit)
		}
	}
}

// WorkerArgs describes one batch.
type WorkerArgs struct {
	Prop     string
	Tier     string
	Seed     uint64
	From     int
	To       int // exclusive
	Skip     map[int]bool
	Out      string // path prefix for marker/result/hashes
	Verbose  bool
	CPULimit time.Duration // per case, 0 = none
}

func CaseRand(seed uint64, prop string, i int) *Rand {
	return NewRand(Mix(seed, HashStr(prop), uint64(i)))
}

// RunWorker executes cases [From,To) in this process. Before each case the
// case index is written to the marker file, so that a process-fatal crash
// (stack overflow, concurrent map write, runtime throw) is attributable.
func RunWorker(a WorkerArgs) int {
	p := Lookup(a.Prop)
	if p == nil {
		fmt.Fprintf(os.Stderr, "unknown property %s\n", a.Prop)
		return 2
	}
	agg := NewAgg()
	var marker *os.File
	if a.Out != "" {
		var err error
		marker, err = os.OpenFile(a.Out+".marker", os.O_CREATE|os.O_WRONLY|os.O_TRUNC, 0o644)
		if err != nil {
			fmt.Fprintln(os.Stderr, err)
			return 2
		}
		defer marker.Close()
	}
	var buf [8]byte
	caseStart := int64(-1)
	if a.CPULimit > 0 {
		go cpuWatch(a.CPULimit, &caseStart, a.Out)
	}
	for i := a.From; i < a.To; i++ {
		if a.Skip[i] {
			continue
		}
		atomic.StoreInt64(&caseStart, int64(processCPU()))
		if marker != nil {
			binary.LittleEndian.PutUint64(buf[:], uint64(i)+1)
			marker.WriteAt(buf[:], 0)
		}
		c := &Ctx{Prop: p, Tier: a.Tier, Seed: a.Seed, Case: i, R: CaseRand(a.Seed, a.Prop, i), Verbose: a.Verbose, agg: agg}
		runCase(p, c, i)
	}
	atomic.StoreInt64(&caseStart, -1)
	if marker != nil {
		binary.LittleEndian.PutUint64(buf[:], 0)
		marker.WriteAt(buf[:], 0)
	}
	if a.Out == "" {
		b, _ := json.MarshalIndent(agg, "", " ")
		fmt.Println(string(b))
		if len(agg.Violations) > 0 {
			return 1
		}
		return 0
	}
	agg.Distinct = int64(len(agg.hashSet))
	if mb := atomic.LoadInt64(&peakMB); mb > 0 {
		agg.Counters["peak-worker-rss-mb"] = mb
	}
	hb := make([]byte, 0, 8*len(agg.hashSet))
	for h := range agg.hashSet {
		hb = binary.LittleEndian.AppendUint64(hb, h)
	}
	if err := os.WriteFile(a.Out+".hashes", hb, 0o644); err != nil {
		fmt.Fprintln(os.Stderr, err)
		return 2
	}
	b, err := json.Marshal(agg)
	if err != nil {
		fmt.Fprintln(os.Stderr, "marshal result:", err)
		return 2
	}
	if err := os.WriteFile(a.Out+".result.json", b, 0o644); err != nil {
		fmt.Fprintln(os.Stderr, err)
		return 2
	}
	return 0
}

func runCase(p *Prop, c *Ctx, i int) {
	defer func() {
		if r := recover(); r != nil {
			stack := string(debug.Stack())
			info := ClassifyPanic(r, stack)
			if !info.InLib || panicInHarness(stack) {
				c.HarnessError(fmt.Sprintf("case %d: harness panic: %v\n%s", i, r, trimStack(stack)))
				return
			}
			c.Violation(info.Sig(), fmt.Sprintf("uncaught panic in library code: %s\n%s", info.Msg, trimStack(stack)), nil)
		}
	}()
	p.Run(c, i)
	c.agg.Evaluations++
}

// panicInHarness: the innermost non-runtime frame belongs to the harness.
func panicInHarness(stack string) bool {
	lines := strings.Split(stack, "\n")
	seenPanic := false
	for _, l := range lines {
		l = strings.TrimSpace(l)
		if strings.HasPrefix(l, "panic(") {
			seenPanic = true
			continue
		}
		if !seenPanic {
			continue
		}
		if strings.HasPrefix(l, "/") || l == "" {
			continue
		}
		if strings.HasPrefix(l, "runtime.") || strings.HasPrefix(l, "reflect.") || strings.HasPrefix(l, "strings.") || strings.HasPrefix(l, "sort.") || strings.HasPrefix(l, "regexp.") || strings.HasPrefix(l, "sync.") || strings.HasPrefix(l, "fmt.") || strings.HasPrefix(l, "bytes.") || strings.HasPrefix(l, "encoding/") || strings.HasPrefix(l, "text/") || strings.HasPrefix(l, "html.") {
			continue
		}
		return strings.HasPrefix(l, "verif/")
	}
	return false
}

func trimStack(s string) string {
	lines := strings.Split(s, "\n")
	if len(lines) > 40 {
		lines = lines[:40]
	}
	return strings.Join(lines, "\n")
}
