// Package ref holds independent reference models used as oracles.
package ref

// Proleptic Gregorian calendar on integer day numbers. It deliberately does
// not use package time.

func IsLeap(y int) bool { return y%4 == 0 && (y%100 != 0 || y%400 == 0) }

func DaysInMonth(y, m int) int {
	switch m {
	case 4, 6, 9, 11:
		return 30
	case 2:
		if IsLeap(y) {
			return 29
		}
		return 28
	}
	return 31
}

func DaysInYear(y int) int {
	if IsLeap(y) {
		return 366
	}
	return 365
}

// DayNumber returns days since 1970-01-01 (negative before), for a valid y-m-d.
func DayNumber(y, m, d int) int64 {
	yy := int64(y)
	if m <= 2 {
		yy--
	}
	var era int64
	if yy >= 0 {
		era = yy / 400
	} else {
		era = (yy - 399) / 400
	}
	yoe := yy - era*400
	mm := int64(m)
	var mp int64
	if mm > 2 {
		mp = mm - 3
	} else {
		mp = mm + 9
	}
	doy := (153*mp+2)/5 + int64(d) - 1
	doe := yoe*365 + yoe/4 - yoe/100 + doy
	return era*146097 + doe - 719468
}

// Civil is the inverse of DayNumber.
func Civil(z int64) (y, m, d int) {
	z += 719468
	var era int64
	if z >= 0 {
		era = z / 146097
	} else {
		era = (z - 146096) / 146097
	}
	doe := z - era*146097
	yoe := (doe - doe/1460 + doe/36524 - doe/146096) / 365
	yy := yoe + era*400
	doy := doe - (365*yoe + yoe/4 - yoe/100)
	mp := (5*doy + 2) / 153
	dd := doy - (153*mp+2)/5 + 1
	var mm int64
	if mp < 10 {
		mm = mp + 3
	} else {
		mm = mp - 9
	}
	if mm <= 2 {
		yy++
	}
	return int(yy), int(mm), int(dd)
}

// DayOfYear is 1-based.
func DayOfYear(y, m, d int) int {
	n := d
	for k := 1; k < m; k++ {
		n += DaysInMonth(y, k)
	}
	return n
}

// Period returns the first and last day number of the period described by a
// (possibly partial) date: d==0 means month-year, m==0 means year only.
func Period(y, m, d int) (first, last int64) {
	switch {
	case m == 0:
		return DayNumber(y, 1, 1), DayNumber(y, 12, 31)
	case d == 0:
		return DayNumber(y, m, 1), DayNumber(y, m, DaysInMonth(y, m))
	}
	n := DayNumber(y, m, d)
	return n, n
}
