// Native Go fuzzing as an additional workload generator for the C03 oracle
// (thorough tier). Run by props/c03.go through Prop.Extra; never by hand.
package fuzz

import (
	"os"
	"strings"
	"testing"

	"verif/props"
)

func FuzzDecode(f *testing.F) {
	for i, s := range props.C03Seeds() {
		if len(s) > 4096 {
			continue
		}
		f.Add(s, uint8(i%4))
	}
	known := map[string]bool{}
	for _, k := range strings.Split(os.Getenv("VERIF_KNOWN_SIGS"), "\n") {
		if k != "" {
			known[k] = true
		}
	}
	f.Fuzz(func(t *testing.T, data []byte, opt uint8) {
		sig, detail := props.C03Verdict(data, opt&1 != 0, opt&2 != 0)
		if sig != "" && !known[sig] {
			t.Fatalf("C03SIG<%s> opt=%d %s", sig, opt&3, detail)
		}
	})
}
