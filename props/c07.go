package props

import (
	"fmt"
	"sort"
	"strings"
	"sync"

	"github.com/elliotchance/gedcom/v39"

	"verif/fw"
	"verif/gen"
)

// C07 — deep equality ignores order and deep copies are independent.

var c07DateClasses = []struct{ class, value string }{
	{"exact", "3 Sep 1943"}, {"exact", "4 Oct 1850"}, {"exact", "Sep 1943"}, {"exact", "1943"},
	{"about", "Abt. 1943"}, {"about", "Abt. Oct 1850"},
	{"before", "Bef. Oct 1943"}, {"before", "Bef. Nov 1943"}, {"before", "Bef. 1850"},
	{"after", "Aft. 1900"}, {"after", "Aft. 3 Sep 1943"},
	{"range", "Bet. 1900 and 1910"}, {"range", "Bet. 3 Sep 1943 and 5 Sep 1943"},
	{"phrase", "(world war 2)"}, {"phrase", "(unknown)"},
	{"unparsable", "garbage"}, {"unparsable", "32 Foo 1900"},
	{"empty", ""},
}

var c07UIDClasses = []struct{ class, value string }{
	{"valid32", "92FF8B766F327F48A256C3AE6DAE50D3"}, {"valid36", "92FF8B766F327F48A256C3AE6DAE50D3A114"},
	{"valid-braces", "{92FF8B76-6F32-7F48-A256-C3AE6DAE50D3}"}, {"valid-lower", "92ff8b766f327f48a256c3ae6dae50d3"},
	{"valid32", "EE13561DDB204985BFFDEEBF82A5226C"}, {"valid36", "EE13561DDB204985BFFDEEBF82A5226C5B2E"},
	{"valid36-other-checksum", "92FF8B766F327F48A256C3AE6DAE50D30000"}, {"valid36-lower-checksum", "92FF8B766F327F48A256C3AE6DAE50D3a114"}, {"valid36-other-checksum", "EE13561DDB204985BFFDEEBF82A5226CFFFF"},
	{"malformed", "not-a-uuid"}, {"malformed", "12345"}, {"malformed", "ZZFF8B766F327F48A256C3AE6DAE50D3"},
	{"empty", ""},
}

func c07Class(s *gen.Spec) string {
	switch s.Tag {
	case "DATE":
		for _, d := range c07DateClasses {
			if d.value == s.Value {
				return "DATE(" + d.class + ")"
			}
		}
		return "DATE(other)"
	case "_UID":
		for _, d := range c07UIDClasses {
			if d.value == s.Value {
				return "_UID(" + d.class + ")"
			}
		}
		return "_UID(other)"
	case "BIRT", "DEAT", "BURI", "BAPM", "RESI", "EVEN", "NAME", "PLAC", "INDI", "FAM", "HUSB", "WIFE", "CHIL", "SEX", "SOUR", "NOTE", "_FSFTID", "_FID":
		return s.Tag
	}
	return "plain"
}

var c07Plain = []string{"_X", "_Y", "OCCU", "TITL", "AGE", "CAUS", "ADDR", "TYPE2", "REFN", "_V",
	// tags that code tends to single out: continuation lines, facts that are
	// "only allowed once", citations and structure tags
	"CONC", "CONT", "RIN", "RFN", "AFN", "RESN", "EDUC", "NATI", "RELI", "PROP", "FORM", "TIME", "QUAY", "PAGE", "ROLE", "CHAN", "OBJE", "FILE", "TEXT"}

// c07Contextual: tags that cannot be created without a document or a family.
var c07Contextual = map[string]bool{"INDI": true, "FAM": true, "HUSB": true, "WIFE": true, "CHIL": true}

// c07Tree: trees for C07, C08 and C09. c07TreeWide also produces wide nodes.
func c07Tree(r *fw.Rand, maxNodes int) *gen.Spec { return c07TreeOpt(r, maxNodes, false) }

func c07TreeWide(r *fw.Rand, maxNodes int) *gen.Spec { return c07TreeOpt(r, maxNodes, true) }

func c07TreeOpt(r *fw.Rand, maxNodes int, wide bool) *gen.Spec {
	budget := maxNodes
	var mk func(depth int) *gen.Spec
	mk = func(depth int) *gen.Spec {
		budget--
		s := &gen.Spec{}
		switch r.Intn(16) {
		case 0:
			s.Tag = []string{"BIRT", "DEAT", "BURI", "BAPM"}[r.Intn(4)]
			if r.Bool() {
				s.Value = "Y"
			}
		case 1:
			s.Tag = "RESI"
		case 2:
			s.Tag = "EVEN"
			s.Value = []string{"", "Census", "Award"}[r.Intn(3)]
		case 3, 4:
			s.Tag = "DATE"
			s.Value = c07DateClasses[r.Intn(len(c07DateClasses))].value
		case 5:
			s.Tag = "_UID"
			s.Value = c07UIDClasses[r.Intn(len(c07UIDClasses))].value
		case 6:
			s.Tag = "NAME"
			s.Value = []string{"John /Smith/", "john  /SMITH/", "Mary /Jones/", "", "/Smith/"}[r.Intn(5)]
		case 7:
			s.Tag = "PLAC"
			s.Value = []string{"London, England", "london,england", "Paris", ""}[r.Intn(4)]
		case 8:
			s.Tag = []string{"SEX", "NOTE", "SOUR", "_FSFTID"}[r.Intn(4)]
			s.Value = []string{"M", "F", "text", "@S1@", "ABCD-123"}[r.Intn(5)]
		default:
			s.Tag = c07Plain[r.Intn(len(c07Plain))]
			if r.Chance(1, 6) { // any registered tag
				if all := gen.AllTags(); len(all) > 0 {
					if t := all[r.Intn(len(all))]; !c07Contextual[t] {
						s.Tag = t
					}
				}
			}
			s.Value = []string{"", "a", "b", "a", "some value", "1"}[r.Intn(6)]
			if r.Chance(1, 10) {
				s.Pointer = "P" + fmt.Sprint(r.Intn(3))
			}
		}
		if (s.Tag == "EVEN" || s.Tag == "RESI" || s.Tag == "BIRT") && r.Chance(1, 3) {
			// a repeated optional line with different values
			for _, v := range [][]string{{"Census", "Residence"}, {"a", "b", "a"}, {"Graduation", ""}}[r.Intn(3)] {
				s.Kids = append(s.Kids, &gen.Spec{Tag: "TYPE", Value: v})
				budget--
			}
		}
		if depth < 4 && budget > 0 {
			nk := r.Intn(4)
			if s.Tag == "BIRT" || s.Tag == "DEAT" || s.Tag == "RESI" || s.Tag == "EVEN" || s.Tag == "BURI" || s.Tag == "BAPM" {
				nk = 1 + r.Intn(3)
			}
			for i := 0; i < nk && budget > 0; i++ {
				k := mk(depth + 1)
				s.Kids = append(s.Kids, k)
				if r.Chance(1, 6) && budget > 0 { // duplicate sibling on purpose
					budget--
					s.Kids = append(s.Kids, cloneSpec(k))
				}
			}
		}
		return s
	}
	// the root is always a plain node or a record, so that every node with its
	// own equality rule can be removed or hoisted by the shrinker
	var kids []*gen.Spec
	for len(kids) == 0 || (budget > 0 && r.Chance(1, 2)) {
		kids = append(kids, mk(1))
	}
	// now and then a wide node: 16 to 40 children, among them siblings with the
	// same line but different subtrees (lists of this size are where code
	// switches to indexes and fast paths)
	if wide && r.Chance(1, 25) {
		n := r.Range(16, 40)
		for len(kids) < n {
			budget = 3
			k := mk(3)
			kids = append(kids, k)
			if r.Chance(1, 4) {
				tw := cloneSpec(k)
				tw.Kids = append(tw.Kids, &gen.Spec{Tag: "_TWIN", Value: fmt.Sprint(len(kids))})
				kids = append(kids, tw)
			}
		}
		budget = 0
	}
	switch r.Intn(4) {
	case 0:
		return &gen.Spec{Tag: "INDI", Pointer: "I1", Kids: append([]*gen.Spec{{Tag: "NAME", Value: "A /B/"}}, kids...)}
	case 1:
		return &gen.Spec{Tag: "FAM", Pointer: "F1", Kids: append(append([]*gen.Spec{{Tag: "HUSB", Value: "@I1@"}, {Tag: "CHIL", Value: "@I2@"}}, kids...), &gen.Spec{Tag: "CHIL", Value: "@I3@"})}
	}
	return &gen.Spec{Tag: "_ROOT", Value: "r", Kids: kids}
}

func cloneSpec(s *gen.Spec) *gen.Spec {
	c := &gen.Spec{Tag: s.Tag, Value: s.Value, Pointer: s.Pointer}
	for _, k := range s.Kids {
		c.Kids = append(c.Kids, cloneSpec(k))
	}
	return c
}

// c07Node builds the node for a spec by decoding its text (first root).
func c07Node(s *gen.Spec) (gedcom.Node, *gedcom.Document) {
	doc, err := gedcom.NewDocumentFromString(gen.Text([]*gen.Spec{s}))
	if err != nil || len(doc.Nodes()) != 1 {
		return nil, nil
	}
	return doc.Nodes()[0], doc
}

func c07Text(n gedcom.Node) string { return gedcom.NewDocumentWithNodes(gedcom.Nodes{n}).String() }

func c07Identity(n gedcom.Node, into map[gedcom.Node]bool) {
	into[n] = true
	for _, k := range n.Nodes() {
		c07Identity(k, into)
	}
}

func c07Permute(n gedcom.Node, r *fw.Rand) {
	kids := n.Nodes()
	if len(kids) > 1 {
		p := r.Perm(len(kids))
		nk := make(gedcom.Nodes, len(kids))
		for i, j := range p {
			nk[i] = kids[j]
		}
		n.SetNodes(nk)
	}
	for _, k := range n.Nodes() {
		c07Permute(k, r)
	}
}

func c07All(n gedcom.Node) gedcom.Nodes {
	out := gedcom.Nodes{n}
	for _, k := range n.Nodes() {
		out = append(out, c07All(k)...)
	}
	return out
}

// a law is evaluated on a spec; it returns "" if it holds, else a message.
type c07Law struct {
	name string
	eval func(s *gen.Spec) string
}

func c07Copy(n gedcom.Node) gedcom.Node { return gedcom.DeepCopy(n, gedcom.NewDocument()) }

var c07PermSeeds = []uint64{11, 22, 33, 44, 55, 66}

var c07Laws = []c07Law{
	{"reflexive-on-copy", func(s *gen.Spec) string {
		n, _ := c07Node(s)
		if n == nil {
			return ""
		}
		cp := c07Copy(n)
		if !gedcom.DeepEqual(n, cp) {
			return "DeepEqual(tree, DeepCopy(tree)) = false"
		}
		if !gedcom.DeepEqual(cp, n) {
			return "DeepEqual(DeepCopy(tree), tree) = false"
		}
		if !gedcom.DeepEqual(n, n) {
			return "DeepEqual(tree, tree) = false"
		}
		n2, _ := c07Node(s)
		if !gedcom.DeepEqual(n, n2) {
			return "DeepEqual(tree, same text decoded again) = false"
		}
		return ""
	}},
	{"copy-text", func(s *gen.Spec) string {
		n, _ := c07Node(s)
		if n == nil {
			return ""
		}
		for _, how := range []string{"DeepCopy", "Filter"} {
			var cp gedcom.Node
			if how == "DeepCopy" {
				cp = c07Copy(n)
			} else {
				cp = gedcom.Filter(n, gedcom.NewDocument(), func(x gedcom.Node) (gedcom.Node, bool) { return x, true })
			}
			if a, b := c07Text(n), c07Text(cp); a != b {
				return fmt.Sprintf("%s serialises differently:\n%s---\n%s", how, a, b)
			}
			if f, m := gen.Diff(gedcom.Nodes{n}, gedcom.Nodes{cp}, ""); f != "" {
				return how + " differs from its source: " + m
			}
		}
		return ""
	}},
	{"permutation", func(s *gen.Spec) string {
		n, _ := c07Node(s)
		if n == nil {
			return ""
		}
		for _, seed := range c07PermSeeds {
			p := c07Copy(n)
			c07Permute(p, fw.NewRand(seed))
			if !gedcom.DeepEqual(n, p) {
				return fmt.Sprintf("DeepEqual(tree, re-ordered copy) = false\n%s---\n%s", c07Text(n), c07Text(p))
			}
			if !gedcom.DeepEqual(p, n) {
				return fmt.Sprintf("DeepEqual(re-ordered copy, tree) = false\n%s---\n%s", c07Text(p), c07Text(n))
			}
		}
		return ""
	}},
}

// c07Shrink removes subtrees while the law still fails and returns the kinds left.
func c07Shrink(s *gen.Spec, law c07Law) (*gen.Spec, string) {
	cur := cloneSpec(s)
	changed := true
	for rounds := 0; changed && rounds < 50; rounds++ {
		changed = false
		var try func(parent *gen.Spec) bool
		try = func(parent *gen.Spec) bool {
			for i := range parent.Kids {
				saved := parent.Kids
				parent.Kids = append(append([]*gen.Spec{}, saved[:i]...), saved[i+1:]...)
				if law.eval(cur) != "" {
					return true
				}
				parent.Kids = saved
				// hoist: replace the child by one of its own children
				for _, gk := range saved[i].Kids {
					parent.Kids = append(append(append([]*gen.Spec{}, saved[:i]...), gk), saved[i+1:]...)
					if law.eval(cur) != "" {
						return true
					}
					parent.Kids = saved
				}
				if len(saved[i].Kids) > 0 && try(saved[i]) {
					return true
				}
			}
			return false
		}
		if try(cur) {
			changed = true
		}
	}
	// if the minimal witness contains nodes whose own Equals is asymmetric,
	// that is the cause; otherwise name the kinds left in the witness
	if n, _ := c07Node(cur); n != nil {
		if k := c07AsymKinds(c07All(n), c07All(n)); k != "" {
			return cur, "asymmetric-equality:" + k
		}
		if k := c07NonTransitiveKinds(c07All(n)); k != "" {
			return cur, "non-transitive-equality:" + k
		}
	}
	return cur, c07KindSet(cur)
}

func c07AsymKinds(as, bs gedcom.Nodes) string {
	kinds := map[string]bool{}
	for _, x := range as {
		for _, y := range bs {
			if x.Equals(y) != y.Equals(x) {
				for _, z := range []gedcom.Node{x, y} {
					k := c07Class(&gen.Spec{Tag: z.Tag().Tag(), Value: z.Value()})
					if k == "EVEN" || k == "RESI" {
						continue // they inherit the asymmetry from their dates
					}
					kinds[k] = true
				}
			}
		}
	}
	var ks []string
	for k := range kinds {
		ks = append(ks, k)
	}
	sort.Strings(ks)
	return strings.Join(ks, "+")
}

// c07KindSet: the distinct node kinds with their own equality rule present in
// the given (minimised) trees; "plain" if there is none.
func c07KindSet(trees ...*gen.Spec) string {
	set := map[string]bool{}
	var walk func(x *gen.Spec)
	walk = func(x *gen.Spec) {
		k := c07Class(x)
		if strings.HasPrefix(k, "DATE(") || strings.HasPrefix(k, "_UID(") || k == "RESI" || k == "EVEN" || k == "BIRT" || k == "DEAT" || k == "BURI" || k == "BAPM" {
			set[k] = true
		}
		for _, c := range x.Kids {
			walk(c)
		}
	}
	for _, t := range trees {
		walk(t)
	}
	var kinds []string
	for k := range set {
		kinds = append(kinds, k)
	}
	sort.Strings(kinds)
	if len(kinds) == 0 {
		return "plain"
	}
	return strings.Join(kinds, "+")
}

// c07ShrinkPair removes subtrees from either tree while bad(a,b) still holds.
func c07ShrinkPair(a, b *gen.Spec, bad func(a, b *gen.Spec) bool) (*gen.Spec, *gen.Spec) {
	a, b = cloneSpec(a), cloneSpec(b)
	for rounds := 0; rounds < 80; rounds++ {
		var try func(parent *gen.Spec) bool
		try = func(parent *gen.Spec) bool {
			for i := range parent.Kids {
				saved := parent.Kids
				parent.Kids = append(append([]*gen.Spec{}, saved[:i]...), saved[i+1:]...)
				if bad(a, b) {
					return true
				}
				parent.Kids = saved
				for _, gk := range saved[i].Kids {
					parent.Kids = append(append(append([]*gen.Spec{}, saved[:i]...), gk), saved[i+1:]...)
					if bad(a, b) {
						return true
					}
					parent.Kids = saved
				}
				if len(saved[i].Kids) > 0 && try(saved[i]) {
					return true
				}
			}
			return false
		}
		if !try(a) && !try(b) {
			break
		}
	}
	return a, b
}

func c07N(tier string) int {
	if tier == "thorough" {
		return 300000
	}
	return 30000
}

func init() {
	fw.Register(&fw.Prop{
		ID:    "C07",
		Title: "Deep equality ignores order and deep copies are independent",
		Cases: func(tier string, seed uint64) int { return c07N(tier) },
		Run:   c07Run,
		Rule: "random trees over every node kind with its own equality rule (plain, BIRT/DEAT/BURI/BAPM, RESI, EVEN, DATE in 8 value classes, _UID in 6 classes, NAME, PLAC, INDI/FAM records with role nodes), duplicate siblings on purpose. Per tree: DeepCopy and Filter copies (deep-equal both ways, identical text, disjoint node identity, source and its document untouched), " +
			"6 random re-orderings of children at every level (all permutations when <= 4 children at a single level), one-node edits (insert/delete/change a plain node) at every plain position, symmetry on related and unrelated pairs, aliasing probe (mutate copy then source). Violations are delta-minimised to name the node kinds that break the law. non-trivial = tree has >= 3 nodes; distinct by text",
		Floors: func(a *fw.Agg, tier string) []string {
			var f []string
			for _, k := range []string{"plain", "BIRT", "RESI", "EVEN", "DATE(exact)", "DATE(before)", "DATE(phrase)", "DATE(unparsable)", "_UID(valid32)", "_UID(malformed)", "NAME", "PLAC", "INDI", "FAM"} {
				if a.Class("kind", k) < 50 {
					f = append(f, fmt.Sprintf("node kind %s in %d trees < 50", k, a.Class("kind", k)))
				}
			}
			for _, k := range []string{"deepequal-true", "deepequal-false", "edits", "permutations", "alias-probes", "symmetry-pairs"} {
				if a.Counters[k] < 100 {
					f = append(f, fmt.Sprintf("%s=%d < 100", k, a.Counters[k]))
				}
			}
			return f
		},
		Assumptions: []string{
			"only edits of plain (*SimpleNode) nodes are required to break equality (kinds such as BIRT are equal by design whatever their value)",
			"copies are made into a fresh document (DeepCopy(node, NewDocument())); copying into the source's own document is C13's subject",
		},
	})
}

// c07Pinned: the first cases of every run are fixed witnesses of the shapes
// behind the listed known findings (sibling DATE nodes under the documented
// fuzzy matrix of Date.Equals), so that each run states whether they still
// reproduce; rel is the second tree of the symmetry pair.
func c07Pinned(i int) (spec, rel *gen.Spec) {
	d := func(vs ...string) *gen.Spec {
		s := &gen.Spec{Tag: "_X", Value: "pinned"}
		for _, v := range vs {
			s.Kids = append(s.Kids, &gen.Spec{Tag: "DATE", Value: v})
		}
		return s
	}
	switch i {
	case 0: // equal in a chain but not transitively
		return d("Sep 1943", "Bef. Oct 1943", "3 Sep 1943"), nil
	case 1: // same directional constraint, different dates: equal in one direction only
		return d("Bef. Oct 1943", "Bef. 1850"), nil
	case 2:
		return d("Aft. 1900", "Aft. 3 Sep 1943"), nil
	case 3:
		return d("Bef. Oct 1943", "4 Oct 1850"), d("Bef. 1850", "4 Oct 1850")
	case 4:
		return d("Aft. 1900", "4 Oct 1850"), d("Aft. 3 Sep 1943", "4 Oct 1850")
	}
	return nil, nil
}

const c07PinnedCases = 5

func c07RecordCopies(c *fw.Ctx, r *fw.Rand) {
	g := gen.NewFG(r, gen.FGOpts{People: r.Range(2, 8), MissingBits: true})
	g.Head = r.Bool()
	recs := g.Specs()
	// placeholders: a wife who is only referred to, a family without members
	bare := &gen.Spec{Tag: "INDI", Pointer: "P900"}
	recs = c14InsertBeforeTRLR(recs, bare, &gen.Spec{Tag: "FAM", Pointer: "F900", Kids: []*gen.Spec{{Tag: "WIFE", Value: "@P900@"}}}, &gen.Spec{Tag: "FAM", Pointer: "F901"}, &gen.Spec{Tag: "SOUR", Pointer: "S900"}, &gen.Spec{Tag: "NOTE", Pointer: "N900", Value: "a note"})
	text := gen.Text(recs)
	doc, err := gedcom.NewDocumentFromString(text)
	if err != nil {
		c.HarnessError("C07 record document does not decode: " + err.Error())
		return
	}
	payload := map[string]interface{}{"gedcom": text}
	views := func() string {
		var sb strings.Builder
		sb.WriteString(doc.String())
		fmt.Fprintf(&sb, "records=%d individuals=%d families=%d\n", len(doc.Nodes()), len(doc.Individuals()), len(doc.Families()))
		for _, n := range doc.Nodes() {
			if n.Pointer() != "" {
				fmt.Fprintf(&sb, "%s -> same object: %v\n", n.Pointer(), doc.NodeByPointer(n.Pointer()) == n)
			}
		}
		for _, f := range doc.Families() {
			h, w := "-", "-"
			if x := f.Husband(); x != nil && x.Individual() != nil {
				h = x.Individual().Pointer()
			}
			if x := f.Wife(); x != nil && x.Individual() != nil {
				w = x.Individual().Pointer()
			}
			fmt.Fprintf(&sb, "%s husband %s wife %s children %d\n", f.Pointer(), h, w, len(f.Children()))
		}
		return sb.String()
	}
	before := views()
	for _, n := range doc.Nodes() {
		kind := n.Tag().Tag()
		if len(n.Nodes()) == 0 {
			kind += "(no lines)"
		}
		c.Count("record-copies", 1)
		want := c07Text(n)
		target := gedcom.NewDocument()
		cp := gedcom.DeepCopy(n, target)
		if got := c07Text(cp); got != want {
			c.Violation("copy-text:record:"+kind, fmt.Sprintf("DeepCopy of record %s serialises as\n%s, want\n%s", gen.Describe(n), got, want), payload)
			return
		}
		if after := views(); after != before {
			c.Violation("source-document-modified-by-copy:"+kind, fmt.Sprintf("copying record %s into a new document changed the document it lives in:\nbefore:\n%s\nafter:\n%s", gen.Describe(n), clip(before, 900), clip(after, 900)), payload)
			return
		}
		// changing the copy changes nothing in the source document
		cp.AddNode(gedcom.NewNode(gedcom.TagFromString("_VNEW"), "added to the copy", ""))
		if after := views(); after != before {
			c.Violation("alias:mutating-record-copy-changed-source-document:"+kind, fmt.Sprintf("after adding a line to the copy of %s the document it was copied from reads differently:\n%s", gen.Describe(n), clip(after, 900)), payload)
			return
		}
		// what the lines of a copied family lead to (their family, the people
		// they name) is never an object of the document the copy was taken from
		if _, isFam := n.(*gedcom.FamilyNode); isFam {
			src := map[gedcom.Node]bool{}
			var walk func(x gedcom.Node)
			walk = func(x gedcom.Node) {
				src[x] = true
				for _, k := range x.Nodes() {
					walk(k)
				}
			}
			for _, x := range doc.Nodes() {
				walk(x)
			}
			for _, k := range cp.Nodes() {
				var fam *gedcom.FamilyNode
				var ind *gedcom.IndividualNode
				role := ""
				fw.Try(func() {
					switch x := k.(type) {
					case *gedcom.HusbandNode:
						role, fam, ind = "HUSB", x.Family(), x.Individual()
					case *gedcom.WifeNode:
						role, fam, ind = "WIFE", x.Family(), x.Individual()
					case *gedcom.ChildNode:
						role, fam, ind = "CHIL", x.Family(), x.Individual()
					}
				})
				if role == "" {
					continue
				}
				c.Count("copied-family-lines-followed", 1)
				if fam != nil && src[fam] {
					c.Violation("alias:copied-family-line-belongs-to-source-family:"+role, fmt.Sprintf("the %s line of the copy of %s says it belongs to the family record of the source document (Family() returns the source's object): a change made through it lands in the source", role, gen.Describe(n)), payload)
					return
				}
				if ind != nil && src[ind] {
					c.Violation("alias:copied-family-line-resolves-into-source-document:"+role, fmt.Sprintf("the %s line of the copy of %s (copied into a new, empty document) resolves to the individual object of the source document", role, gen.Describe(n)), payload)
					return
				}
				if fam != nil {
					fam.AddNode(gedcom.NewNode(gedcom.TagFromString("_VNEW"), "added through a line of the copy", ""))
					if after := views(); after != before {
						c.Violation("alias:mutating-record-copy-changed-source-document:"+kind, fmt.Sprintf("after adding a line to the family that the %s line of the copy of %s belongs to, the source document reads differently:\n%s", role, gen.Describe(n), clip(after, 900)), payload)
						return
					}
				}
			}
		}
		if _, isInd := n.(*gedcom.IndividualNode); isInd {
			if _, ok := cp.(*gedcom.IndividualNode); !ok {
				c.Violation("copy-kind:record:"+kind, fmt.Sprintf("the copy of an individual is a %T", cp), payload)
				return
			}
		}
		if _, isFam := n.(*gedcom.FamilyNode); isFam {
			if _, ok := cp.(*gedcom.FamilyNode); !ok {
				c.Violation("copy-kind:record:"+kind, fmt.Sprintf("the copy of a family is a %T", cp), payload)
				return
			}
		}
	}
}

func c07Run(c *fw.Ctx, i int) {
	r := c.R
	spec := c07TreeWide(r, r.Range(3, 24))
	pinned, pinnedRel := c07Pinned(i)
	if pinned != nil {
		spec = pinned
	}
	n, doc := c07Node(spec)
	if n == nil {
		c.HarnessError("generated tree does not decode: " + gen.Text([]*gen.Spec{spec}))
		return
	}
	text := c07Text(n)
	if spec.Count() >= 3 {
		c.NontrivialStr(text)
	}
	seen := map[string]bool{}
	var kinds func(s *gen.Spec)
	kinds = func(s *gen.Spec) {
		if k := c07Class(s); !seen[k] {
			seen[k] = true
			c.Class("kind", k)
		}
		for _, k := range s.Kids {
			kinds(k)
		}
	}
	kinds(spec)
	payload := map[string]interface{}{"gedcom": text}
	for _, law := range c07Laws {
		if msg := law.eval(spec); msg != "" {
			min, kind := c07Shrink(spec, law)
			c.Violation(law.name+":"+kind, msg+"\nminimised witness:\n"+gen.Text([]*gen.Spec{min}), map[string]interface{}{"gedcom": text, "minimised": gen.Text([]*gen.Spec{min})})
		}
	}
	c.Count("permutations", int64(len(c07PermSeeds)))
	docText := doc.String()

	// identity + purity of copying
	cp := c07Copy(n)
	srcIDs, cpIDs := map[gedcom.Node]bool{}, map[gedcom.Node]bool{}
	c07Identity(n, srcIDs)
	c07Identity(cp, cpIDs)
	for x := range cpIDs {
		if srcIDs[x] {
			c.Violation("shared-node:DeepCopy:"+c07Class(&gen.Spec{Tag: x.Tag().Tag(), Value: x.Value()}), "a node object is reachable from both the source and its deep copy: "+gen.Describe(x), payload)
			break
		}
	}
	if c07Text(n) != text || doc.String() != docText {
		c.Violation("source-modified-by-copy", "copying changed the source tree or its document", payload)
	}
	if gedcom.DeepEqual(n, cp) {
		c.Count("deepequal-true", 1)
	}
	// DeepCopy may be given the document the node lives in ("This can be the
	// same document"): the copy is still an exact, independent copy. Families
	// are left out: copying one registers a family in the target document.
	if spec.Tag != "FAM" {
		c.Count("copies-into-the-own-document", 1)
		own := gedcom.DeepCopy(n, doc)
		if a, b := c07Text(n), c07Text(own); a != b || a != text {
			c.Violation("copy-text:into-own-document", fmt.Sprintf("DeepCopy(node, node's own document) serialises differently:\n%s---\n%s", text, b), payload)
		} else if !gedcom.DeepEqual(n, own) || !gedcom.DeepEqual(own, n) {
			c.Violation("reflexive-on-copy:into-own-document", "DeepCopy(node, node's own document) is not deep-equal to its source", payload)
		}
		ownIDs := map[gedcom.Node]bool{}
		c07Identity(own, ownIDs)
		for x := range ownIDs {
			if srcIDs[x] {
				c.Violation("shared-node:DeepCopy:into-own-document", "a node object is reachable from both the source and its copy made into the same document: "+gen.Describe(x), payload)
				break
			}
		}
	}

	// the same questions asked by several goroutines at once, the first time
	// anything is asked of these nodes (whatever a comparison memoises on the
	// nodes is filled in under contention): every answer is the sequential one
	if i%3 == 0 {
		sn, _ := c07Node(spec)
		scp := c07Copy(sn)
		want := [2]bool{gedcom.DeepEqual(sn, scp), gedcom.DeepEqual(scp, sn)}
		pn, _ := c07Node(spec)
		pcp := c07Copy(pn)
		const workers = 8
		got := make([][2]bool, workers)
		var wg sync.WaitGroup
		start := make(chan struct{})
		for w := 0; w < workers; w++ {
			wg.Add(1)
			go func(w int) {
				defer wg.Done()
				<-start
				if w%2 == 0 {
					got[w][0] = gedcom.DeepEqual(pn, pcp)
					got[w][1] = gedcom.DeepEqual(pcp, pn)
				} else {
					got[w][1] = gedcom.DeepEqual(pcp, pn)
					got[w][0] = gedcom.DeepEqual(pn, pcp)
				}
			}(w)
		}
		close(start)
		wg.Wait()
		c.Count("parallel-evaluations", workers)
		for w := range got {
			if got[w] != want {
				kind := "without-DATE"
				if strings.Contains(c07KindSet(spec), "DATE") {
					kind = "with-DATE"
				}
				c.Violation("parallel-evaluation-differs:"+kind, fmt.Sprintf("DeepEqual(tree, copy) / DeepEqual(copy, tree) asked by %d goroutines at once on freshly decoded nodes: goroutine %d got %v, the same question asked alone gets %v", workers, w, got[w], want), payload)
				break
			}
		}
	}

	// records of a document with relatives, among them people and families
	// without a line of their own (placeholders that are only referred to):
	// copying any record, into a new document or into the same one, leaves the
	// document it comes from as it is
	if i%4 == 1 {
		c07RecordCopies(c, r)
	}

	// aliasing probe
	c.Count("alias-probes", 1)
	cpText := c07Text(cp)
	c07Mutate(r, cp)
	if c07Text(n) != text {
		c.Violation("alias:mutating-copy-changed-source", "after mutating the copy the source serialises differently:\n"+text+"---\n"+c07Text(n), payload)
	}
	cp2 := c07Copy(n)
	c07Mutate(r, n)
	if got := c07Text(cp2); got != text {
		c.Violation("alias:mutating-source-changed-copy", "after mutating the source an earlier copy serialises differently:\n"+text+"---\n"+got, payload)
	}
	_ = cpText

	// one-node edits of plain nodes (on fresh decodes)
	base, _ := c07Node(spec)
	positions := 0
	for idx, x := range c07All(base) {
		if _, plain := x.(*gedcom.SimpleNode); !plain {
			continue
		}
		positions++
		if positions > 12 {
			break
		}
		for _, kind := range []string{"insert", "change", "delete"} {
			ed, _ := c07Node(spec)
			// every second tree has been compared before it is edited in place
			// (whatever a comparison memoises on the nodes is there when the edit comes)
			if idx%2 == 0 {
				_ = gedcom.DeepEqual(ed, base)
				_ = gedcom.DeepEqual(base, ed)
			}
			nodes := c07All(ed)
			target := nodes[idx]
			switch kind {
			case "insert":
				target.AddNode(gedcom.NewNode(gedcom.TagFromString("_VNEW"), "inserted", ""))
			case "change":
				if idx == 0 {
					continue // changing the root's own value is covered by Equals tests; keep the root tag
				}
				par := c07Parent(ed, target)
				if par == nil {
					continue
				}
				// the change is one of: a suffix, a prefix, one byte at a random
				// position (same length), the letter case of one byte, the empty
				// value, another plain tag, another pointer
				tag, val, ptr := target.Tag(), target.Value(), target.Pointer()
				how := r.Intn(9)
				c.Class("change", []string{"suffix", "prefix", "one-byte", "case", "empty", "tag", "pointer", "last-byte", "spacing-only"}[how])
				switch how {
				case 8:
					// nothing but the spacing changes: a blank inside the value is
					// doubled or becomes a tab; a value without one gets a blank
					// at its end (nodes built through the API keep it)
					if k := strings.Index(strings.TrimSpace(val), " "); k > 0 {
						k += len(val) - len(strings.TrimLeft(val, " "))
						if r.Bool() {
							val = val[:k] + "  " + val[k+1:]
						} else {
							val = val[:k] + "\t" + val[k+1:]
						}
					} else {
						val += " "
					}
				case 0:
					val += "~changed"
				case 1:
					val = "changed~" + val
				case 2, 3, 7:
					if val == "" {
						val = "x"
						break
					}
					b := []byte(val)
					k := r.Intn(len(b))
					if how == 7 {
						k = len(b) - 1
					}
					switch {
					case how == 3 && b[k] >= 'a' && b[k] <= 'z':
						b[k] -= 32
					case how == 3 && b[k] >= 'A' && b[k] <= 'Z':
						b[k] += 32
					case b[k] == 'q':
						b[k] = 'r'
					default:
						b[k] = 'q'
					}
					val = string(b)
				case 4:
					if val == "" {
						val = "x"
					} else {
						val = ""
					}
				case 5:
					if tag.Tag() == "_CHG" {
						tag = gedcom.TagFromString("_CHH")
					} else {
						tag = gedcom.TagFromString("_CHG")
					}
				case 6:
					ptr += "Z9"
				}
				repl := gedcom.NewNode(tag, val, ptr)
				repl.SetNodes(target.Nodes())
				kids := append(gedcom.Nodes{}, par.Nodes()...)
				for q := range kids {
					if kids[q] == target {
						kids[q] = repl
					}
				}
				par.SetNodes(kids)
			case "delete":
				if idx == 0 || len(target.Nodes()) > 0 {
					continue
				}
				par := c07Parent(ed, target)
				if par == nil {
					continue
				}
				par.DeleteNode(target)
			}
			c.Count("edits", 1)
			fresh, _ := c07Node(spec)
			ab, ba := gedcom.DeepEqual(fresh, ed), gedcom.DeepEqual(ed, fresh)
			if !ab && !ba {
				c.Count("deepequal-false", 1)
			}
			if ab || ba {
				c.Violation("edit-not-detected:"+kind+":under-"+c07ParentKind(spec, idx), fmt.Sprintf("trees differing by one %s of a plain node are deep-equal (a,b)=%v (b,a)=%v\n%s---\n%s", kind, ab, ba, c07Text(fresh), c07Text(ed)), payload)
			}
		}
	}

	// symmetry on related (one date respelled / one edit) and unrelated pairs
	other := c07Tree(r, r.Range(3, 16))
	other.Tag = spec.Tag
	if spec.Tag == "INDI" || spec.Tag == "FAM" {
		other.Pointer = spec.Pointer
		other.Value = ""
	}
	rel := cloneSpec(spec)
	c07Respell(r, rel)
	if pinnedRel != nil {
		rel = pinnedRel
	}
	for _, pr := range [][2]*gen.Spec{{spec, other}, {spec, rel}} {
		a, _ := c07Node(pr[0])
		b, _ := c07Node(pr[1])
		if a == nil || b == nil {
			continue
		}
		c.Count("symmetry-pairs", 1)
		ab, ba := gedcom.DeepEqual(a, b), gedcom.DeepEqual(b, a)
		if ab != ba {
			// the cause is named by the node pairs whose own (shallow) Equals is
			// asymmetric; if there is none the asymmetry comes from the matching itself
			cause := c07AsymKinds(c07All(a), c07All(b))
			example := ""
			for _, x := range c07All(a) {
				for _, y := range c07All(b) {
					if example == "" && x.Equals(y) != y.Equals(x) {
						example = fmt.Sprintf("%s.Equals(%s)=%v but reverse=%v", x.GEDCOMLine(-1), y.GEDCOMLine(-1), x.Equals(y), y.Equals(x))
					}
				}
			}
			if cause == "" {
				cause = "matching-only"
			} else {
				cause = "asymmetric-equality:" + cause
			}
			c.Violation("symmetry:"+cause, fmt.Sprintf("DeepEqual(a,b)=%v but DeepEqual(b,a)=%v; asymmetric node equality: %s\n%s---\n%s", ab, ba, example, c07Text(a), c07Text(b)),
				map[string]interface{}{"a": c07Text(a), "b": c07Text(b)})
		}
	}
	if c.WantSample("tree") {
		c.Sample("tree", clip(text, 400))
	}
}

func c07Parent(root, target gedcom.Node) gedcom.Node {
	for _, k := range root.Nodes() {
		if k == target {
			return root
		}
		if p := c07Parent(k, target); p != nil {
			return p
		}
	}
	return nil
}

func c07ParentKind(spec *gen.Spec, idx int) string {
	// pre-order index -> parent's class
	i := -1
	res := "root"
	var walk func(s *gen.Spec, parent string) bool
	walk = func(s *gen.Spec, parent string) bool {
		i++
		if i == idx {
			res = parent
			return true
		}
		for _, k := range s.Kids {
			if walk(k, c07Class(s)) {
				return true
			}
		}
		return false
	}
	walk(spec, "root")
	return res
}

func c07Mutate(r *fw.Rand, n gedcom.Node) {
	all := c07All(n)
	for k := 0; k < 4; k++ {
		t := all[r.Intn(len(all))]
		switch r.Intn(3) {
		case 0:
			t.AddNode(gedcom.NewNode(gedcom.TagFromString("_MUT"), fmt.Sprint(k), ""))
		case 1:
			if kids := t.Nodes(); len(kids) > 0 {
				t.DeleteNode(kids[r.Intn(len(kids))])
			}
		case 2:
			kids := t.Nodes()
			if len(kids) > 0 {
				t.SetNodes(append(gedcom.Nodes{gedcom.NewNode(gedcom.TagFromString("_SET"), "x", "")}, kids[1:]...))
			}
		}
	}
}

// c07Respell changes one DATE to another spelling/class, or one plain value.
func c07Respell(r *fw.Rand, s *gen.Spec) {
	var dates []*gen.Spec
	var walk func(x *gen.Spec)
	walk = func(x *gen.Spec) {
		if x.Tag == "DATE" || x.Tag == "_UID" {
			dates = append(dates, x)
		}
		for _, k := range x.Kids {
			walk(k)
		}
	}
	walk(s)
	if len(dates) == 0 {
		return
	}
	d := dates[r.Intn(len(dates))]
	if d.Tag == "DATE" {
		d.Value = c07DateClasses[r.Intn(len(c07DateClasses))].value
	} else {
		d.Value = c07UIDClasses[r.Intn(len(c07UIDClasses))].value
	}
}

// c07NonTransitiveKinds: kinds of node triples x~y, y~z but not x~z under the
// nodes' own Equals (greedy multiset matching is only sound for an equivalence).
func c07NonTransitiveKinds(ns gedcom.Nodes) string {
	kinds := map[string]bool{}
	for _, x := range ns {
		for _, y := range ns {
			if x == y || !x.Equals(y) {
				continue
			}
			for _, z := range ns {
				if z == x || z == y || !y.Equals(z) || x.Equals(z) {
					continue
				}
				for _, w := range []gedcom.Node{x, y, z} {
					k := c07Class(&gen.Spec{Tag: w.Tag().Tag(), Value: w.Value()})
					if k != "EVEN" && k != "RESI" {
						kinds[k] = true
					}
				}
			}
		}
	}
	var ks []string
	for k := range kinds {
		ks = append(ks, k)
	}
	sort.Strings(ks)
	return strings.Join(ks, "+")
}
