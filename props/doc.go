// Package props holds one file per property: workload x oracle.
package props
