package props

import (
	"fmt"
	"math"
	"sync"
	"time"

	"github.com/elliotchance/gedcom/v39"

	"verif/fw"
	"verif/ref"
)

// C05 — date bounds and the Years scale agree with the calendar.
// One case = one calendar year: every day, every month-year and the
// year-only date of that year, plus the roll-over pair into the next year.
// Thorough enumerates all 9,999 years (3,652,059 days); quick a stratified
// subset. The last case of the list is a batch of random disjoint-period
// ordering checks.

func c05Years(tier string, seed uint64) []int {
	if tier == "thorough" {
		ys := make([]int, 9999)
		for i := range ys {
			ys[i] = i + 1
		}
		return ys
	}
	set := map[int]bool{}
	add := func(a, b int) {
		for y := a; y <= b; y++ {
			set[y] = true
		}
	}
	add(1, 10)
	add(1575, 1605)
	add(1895, 1905)
	add(1995, 2105)
	add(9990, 9999)
	for y := 100; y <= 9900; y += 100 {
		set[y] = true
	}
	r := fw.NewRand(fw.Mix(seed, 5))
	for len(set) < 420 {
		set[r.Range(1, 9999)] = true
	}
	var ys []int
	for y := 1; y <= 9999; y++ {
		if set[y] {
			ys = append(ys, y)
		}
	}
	return ys
}

const c05PairCases = 16

func init() {
	fw.Register(&fw.Prop{
		ID:    "C05",
		Title: "Date bounds and the Years scale agree with the calendar",
		Cases: func(tier string, seed uint64) int { return len(c05Years(tier, seed)) + c05PairCases },
		Run:   c05Run,
		Rule: "one case = one calendar year (all its days with both range-end flags, its 12 month-year dates, the year-only date, " +
			"day->next-day pairs incl. the roll-over into the next year, (first day, partial, last day) triples) compared with an independent " +
			"integer-day-number Gregorian calendar; plus batches of random ordered pairs of disjoint periods (IsBefore/IsAfter, and DateNodes.Minimum/Maximum over shuffled sets of 2-5 pairwise disjoint periods); the same functions evaluated from 8 goroutines at once must give what one goroutine gives. thorough = all years 1..9999. " +
			"non-trivial/distinct = each (day|month|year date) evaluated, counted by hash of its y-m-d",
		Exhaustive: func(tier string) bool { return tier == "thorough" },
		Floors: func(a *fw.Agg, tier string) []string {
			var f []string
			want := int64(100000)
			if tier == "thorough" {
				want = 3652059
			}
			if a.Counters["days"] < want {
				f = append(f, fmt.Sprintf("days evaluated %d < %d", a.Counters["days"], want))
			}
			for _, k := range []string{"leap-year", "century-nonleap", "century-leap", "common-year"} {
				if a.Class("year-shape", k) == 0 {
					f = append(f, "year shape not seen: "+k)
				}
			}
			return f
		},
		Assumptions: []string{
			"reference calendar (ref/cal.go: days-from-civil arithmetic, own leap rule) is correct; it is cross-checked against itself (Civil(DayNumber(x))==x) on every day",
			"instants are compared as Unix seconds + nanoseconds in UTC",
		},
	})
}

func c05Class(y, m, d int) string {
	switch {
	case y == 1 && (m == 0 || m == 1) && (d == 0 || d == 1):
		return "period-starting-at-zero-time"
	case m == 2 && d == 29:
		return "29-Feb"
	case m == 12 && d == 31:
		return "31-Dec"
	case m == 0:
		return "year-only"
	case d == 0:
		return "month-year"
	case d == ref.DaysInMonth(y, m):
		return "last-day-of-month"
	}
	return "day"
}

func c05Run(c *fw.Ctx, i int) {
	years := c05Years(c.Tier, c.Seed)
	if i >= len(years) {
		c05Pairs(c, i-len(years))
		return
	}
	y := years[i]
	switch {
	case ref.IsLeap(y) && y%100 == 0:
		c.Class("year-shape", "century-leap")
	case ref.IsLeap(y):
		c.Class("year-shape", "leap-year")
	case y%100 == 0:
		c.Class("year-shape", "century-nonleap")
	default:
		c.Class("year-shape", "common-year")
	}
	bad := func(check string, y, m, d int, format string, args ...interface{}) {
		c.Violation(check+":"+c05Class(y, m, d), fmt.Sprintf("date d=%d m=%d y=%d: ", d, m, y)+fmt.Sprintf(format, args...),
			map[string]int{"day": d, "month": m, "year": y})
	}
	checkBounds := func(y, m, d int) {
		first, last := ref.Period(y, m, d)
		s := gedcom.Date{Day: d, Month: time.Month(m), Year: y, IsEndOfRange: false}
		e := gedcom.Date{Day: d, Month: time.Month(m), Year: y, IsEndOfRange: true}
		st, et := s.Time(), e.Time()
		wantS := first * 86400
		wantE := (last+1)*86400 - 1
		if st.Unix() != wantS || st.Nanosecond() != 0 {
			bad("start-bound", y, m, d, "start bound %s (unix %d.%09d), want unix %d.0", st.UTC().Format(time.RFC3339Nano), st.Unix(), st.Nanosecond(), wantS)
		}
		if et.Unix() != wantE || et.Nanosecond() != 999999999 {
			bad("end-bound", y, m, d, "end bound %s (unix %d.%09d), want unix %d.999999999 (last nanosecond of the last day)", et.UTC().Format(time.RFC3339Nano), et.Unix(), et.Nanosecond(), wantE)
		}
		if et.Before(st) {
			bad("start<=end", y, m, d, "end %v before start %v", et, st)
		}
		dur := gedcom.NewDateRange(s, e).Duration().Duration
		wantDur := time.Duration(last-first+1)*24*time.Hour - time.Nanosecond
		if dur != wantDur {
			bad("duration", y, m, d, "Duration()=%v want %v", dur, wantDur)
		}
		c.NontrivialStr(fmt.Sprintf("%d-%d-%d", y, m, d))
	}
	// the same date read from text (what a decoded file goes through): same
	// bounds, same fractional year
	months := [2][]string{{"Jan", "Feb", "Mar", "Apr", "May", "Jun", "Jul", "Aug", "Sep", "Oct", "Nov", "Dec"}, {"JAN", "FEB", "MAR", "APR", "MAY", "JUN", "JUL", "AUG", "SEP", "OCT", "NOV", "DEC"}}
	fromText := func(y, m, d int) *gedcom.DateNode {
		var text string
		switch {
		case m == 0:
			text = fmt.Sprintf("%d", y)
		case d == 0:
			text = fmt.Sprintf("%s %d", months[(y+m)%2][m-1], y)
		default:
			text = fmt.Sprintf("%d %s %d", d, months[(y+d)%2][m-1], y)
			if d%7 == 3 {
				text = fmt.Sprintf("%02d %s %04d", d, months[(y+d)%2][m-1], y)
			}
		}
		n := gedcom.NewDateNode(text)
		c.Count("dates-read-from-text", 1)
		first, last := ref.Period(y, m, d)
		st, et := n.StartDate().Time(), n.EndDate().Time()
		if !n.IsValid() || st.Unix() != first*86400 || st.Nanosecond() != 0 || et.Unix() != (last+1)*86400-1 || et.Nanosecond() != 999999999 {
			bad("text-bounds", y, m, d, "DATE %q: valid=%v, bounds %s .. %s, want the period of unix days %d .. %d", text, n.IsValid(), st.UTC().Format(time.RFC3339Nano), et.UTC().Format(time.RFC3339Nano), first, last)
		}
		lit := gedcom.Date{Day: d, Month: time.Month(m), Year: y}
		if a, b := n.StartDate().Years(), lit.Years(); a != b {
			bad("text-years", y, m, d, "DATE %q: Years() of the start %.9f, of the same date built directly %.9f", text, a, b)
		}
		if a, b := n.Years(), gedcom.NewDateRange(lit, gedcom.Date{Day: d, Month: time.Month(m), Year: y, IsEndOfRange: true}).Years(); a != b {
			bad("text-years", y, m, d, "DATE %q: Years() of the node %.9f, of the same range built directly %.9f", text, a, b)
		}
		return n
	}
	var prevNode *gedcom.DateNode
	var prevYears float64
	havePrev := false
	prevY, prevM, prevD := 0, 0, 0
	stepDay := func(y, m, d int) float64 {
		// reference self-check
		n := ref.DayNumber(y, m, d)
		if yy, mm, dd := ref.Civil(n); yy != y || mm != m || dd != d {
			c.HarnessError(fmt.Sprintf("reference calendar not self-inverse at %d-%d-%d", y, m, d))
		}
		dt := gedcom.Date{Day: d, Month: time.Month(m), Year: y}
		v := dt.Years()
		ve := gedcom.Date{Day: d, Month: time.Month(m), Year: y, IsEndOfRange: true}.Years()
		if havePrev {
			if !(prevYears < v) {
				bad("years-monotone", prevY, prevM, prevD, "Years(%d-%d-%d)=%.9f is not < Years(next day %d-%d-%d)=%.9f", prevY, prevM, prevD, prevYears, y, m, d, v)
			}
			p := gedcom.Date{Day: prevD, Month: time.Month(prevM), Year: prevY}
			if !p.IsBefore(dt) || !dt.IsAfter(p) || p.IsAfter(dt) || dt.IsBefore(p) {
				bad("order-adjacent-days", prevY, prevM, prevD, "IsBefore/IsAfter disagree with calendar order for consecutive days")
			}
		}
		node := fromText(y, m, d)
		if havePrev {
			// the same pair through ranges and through DATE nodes
			p := gedcom.Date{Day: prevD, Month: time.Month(prevM), Year: prevY}
			pe, de := p, dt
			pe.IsEndOfRange, de.IsEndOfRange = true, true
			pr, dr := gedcom.NewDateRange(p, pe), gedcom.NewDateRange(dt, de)
			if !pr.IsBefore(dr) || !dr.IsAfter(pr) || pr.IsAfter(dr) || dr.IsBefore(pr) {
				bad("order-adjacent-days-range", prevY, prevM, prevD, "DateRange.IsBefore/IsAfter disagree with calendar order for consecutive days: before %v/%v after %v/%v", pr.IsBefore(dr), dr.IsBefore(pr), dr.IsAfter(pr), pr.IsAfter(dr))
			}
			if !prevNode.IsBefore(node) || !node.IsAfter(prevNode) || prevNode.IsAfter(node) || node.IsBefore(prevNode) {
				bad("order-adjacent-days-node", prevY, prevM, prevD, "DateNode.IsBefore/IsAfter disagree with calendar order for %q and the next day %q", prevNode.Value(), node.Value())
			}
			if !(prevNode.Years() < node.Years()) {
				bad("years-monotone-node", prevY, prevM, prevD, "DateNode.Years(%q)=%.9f is not < that of the next day %q = %.9f", prevNode.Value(), prevNode.Years(), node.Value(), node.Years())
			}
			if mn := (gedcom.DateNodes{node, prevNode}).Minimum(); mn != prevNode {
				bad("minimum-adjacent-days", prevY, prevM, prevD, "Minimum of %q and the day before is not the day before", node.Value())
			}
			// the scale as similarity uses it: two consecutive days are less than
			// 1/365 of a year apart, whatever the year numbers say (31 Dec / 1
			// Jan), so under any margin of a quarter of a year or more they are
			// nearly the same date, and the score is the documented parabola of
			// the distance on the scale
			for _, my := range []float64{0.25, 0.5, 1.5, 3} {
				if (y+d)%4 != int(my*4)%4 && !(m == 1 && d == 1) {
					continue
				}
				c.Count("similarity-of-adjacent-days", 1)
				dist := node.Years() - prevNode.Years()
				want := 1 - (dist/my)*(dist/my)
				if got := pr.Similarity(dr, my); got < 0.999 || got > 1 || math.Abs(got-want) > 1e-9 {
					bad("similarity-adjacent-days", prevY, prevM, prevD, "DateRange.Similarity of %q and the next day with a margin of %v years is %v; they are %.6f years apart on the Years scale, which gives %v", prevNode.Value(), my, got, dist, want)
				}
				if got := prevNode.Similarity(node, my); got < 0.999 || got > 1 {
					bad("similarity-adjacent-days-node", prevY, prevM, prevD, "DateNode.Similarity of %q and the next day with a margin of %v years is %v", prevNode.Value(), my, got)
				}
			}
			if mx := (gedcom.DateNodes{node, prevNode}).Maximum(); mx != node {
				bad("maximum-adjacent-days", prevY, prevM, prevD, "Maximum of %q and the day before is not %q", node.Value(), node.Value())
			}
		}
		prevNode = node
		if ve < v {
			bad("years-end-flag", y, m, d, "Years() with IsEndOfRange=%.9f < without=%.9f", ve, v)
		}
		if v < float64(y) || v > float64(y+1) {
			bad("years-inside-year", y, m, d, "Years()=%.9f outside [%d,%d]", v, y, y+1)
		}
		prevYears, havePrev = v, true
		prevY, prevM, prevD = y, m, d
		return v
	}
	if y > 1 {
		stepDay(y-1, 12, 31)
	}
	var firstOfYear, lastOfYear float64
	for m := 1; m <= 12; m++ {
		dim := ref.DaysInMonth(y, m)
		var firstV, lastV float64
		for d := 1; d <= dim; d++ {
			v := stepDay(y, m, d)
			checkBounds(y, m, d)
			c.Count("days", 1)
			if d == 1 {
				firstV = v
			}
			lastV = v
			if m == 1 && d == 1 {
				firstOfYear = v
			}
			lastOfYear = v
		}
		checkBounds(y, m, 0)
		fromText(y, m, 0)
		c.Count("month-years", 1)
		pv := gedcom.Date{Month: time.Month(m), Year: y}.Years()
		if pv < firstV || pv > lastV {
			bad("years-containment", y, m, 0, "Years(month-year)=%.9f outside [Years(first day)=%.9f, Years(last day)=%.9f]", pv, firstV, lastV)
		}
		// a day the calendar does not have must not be silently accepted as a bound
	}
	checkBounds(y, 0, 0)
	fromText(y, 0, 0)
	c.Count("year-only", 1)
	yv := gedcom.Date{Year: y}.Years()
	if yv < firstOfYear || yv > lastOfYear {
		bad("years-containment", y, 0, 0, "Years(year)=%.9f outside [Years(1 Jan)=%.9f, Years(31 Dec)=%.9f]", yv, firstOfYear, lastOfYear)
	}
	if y < 9999 {
		stepDay(y+1, 1, 1)
	}
	if c.WantSample("year") {
		c.Sample("year", map[string]interface{}{"year": y, "days": ref.DaysInYear(y), "Years(1 Jan)": firstOfYear, "Years(31 Dec)": lastOfYear, "Years(year only)": yv})
	}
}

func c05RandDate(r *fw.Rand) (y, m, d int) {
	y = r.Range(1, 9999)
	switch r.Intn(3) {
	case 0:
		return y, 0, 0
	case 1:
		return y, r.Range(1, 12), 0
	}
	m = r.Range(1, 12)
	return y, m, r.Range(1, ref.DaysInMonth(y, m))
}

func c05Pairs(c *fw.Ctx, k int) {
	n := 8000
	if c.Thorough() {
		n = 62500
	}
	for j := 0; j < n; j++ {
		y1, m1, d1 := c05RandDate(c.R)
		y2, m2, d2 := c05RandDate(c.R)
		if c.R.Chance(1, 2) { // near pairs are the interesting ones
			y2 = y1 + c.R.Range(-1, 1)
			if y2 < 1 || y2 > 9999 {
				y2 = y1
			}
			if d2 != 0 && d2 > ref.DaysInMonth(y2, m2) {
				d2 = ref.DaysInMonth(y2, m2)
			}
		}
		f1, l1 := ref.Period(y1, m1, d1)
		f2, l2 := ref.Period(y2, m2, d2)
		a := gedcom.Date{Day: d1, Month: time.Month(m1), Year: y1, IsEndOfRange: c.R.Bool()}
		b := gedcom.Date{Day: d2, Month: time.Month(m2), Year: y2, IsEndOfRange: c.R.Bool()}
		c.Count("pairs", 1)
		switch {
		case l1 < f2:
			c.Count("pairs-disjoint", 1)
			if !a.IsBefore(b) || !b.IsAfter(a) || a.IsAfter(b) || b.IsBefore(a) {
				c.Violation("order-disjoint:"+c05Class(y1, m1, d1)+"/"+c05Class(y2, m2, d2),
					fmt.Sprintf("period %d-%d-%d ends before %d-%d-%d starts but IsBefore=%v IsAfter(rev)=%v IsAfter=%v IsBefore(rev)=%v", y1, m1, d1, y2, m2, d2, a.IsBefore(b), b.IsAfter(a), a.IsAfter(b), b.IsBefore(a)),
					[]int{y1, m1, d1, y2, m2, d2})
			}
		case l2 < f1:
			c.Count("pairs-disjoint", 1)
			if !b.IsBefore(a) || !a.IsAfter(b) || b.IsAfter(a) || a.IsBefore(b) {
				c.Violation("order-disjoint:"+c05Class(y2, m2, d2)+"/"+c05Class(y1, m1, d1),
					fmt.Sprintf("period %d-%d-%d ends before %d-%d-%d starts but order predicates disagree", y2, m2, d2, y1, m1, d1),
					[]int{y1, m1, d1, y2, m2, d2})
			}
		}
		// DateRange-level ordering (consumers: sorting, Minimum/Maximum)
		c.NontrivialStr(fmt.Sprintf("p%d-%d-%d/%d-%d-%d", y1, m1, d1, y2, m2, d2))
		// minimum and maximum of a set of dates that hold this pair (pairwise
		// disjoint periods only, so that calendar order leaves no doubt)
		if (l1 < f2 || l2 < f1) && j%4 == 0 {
			type per struct {
				f, l int64
				text string
			}
			spell := func(y, m, d int) string {
				mon := []string{"", "Jan", "Feb", "Mar", "Apr", "May", "Jun", "Jul", "Aug", "Sep", "Oct", "Nov", "Dec"}
				switch {
				case d != 0:
					return fmt.Sprintf("%d %s %d", d, mon[m], y)
				case m != 0:
					return fmt.Sprintf("%s %d", mon[m], y)
				}
				return fmt.Sprint(y)
			}
			set := []per{{f1, l1, spell(y1, m1, d1)}, {f2, l2, spell(y2, m2, d2)}}
			for extra := c.R.Intn(4); extra > 0; extra-- {
				y, m, d := c05RandDate(c.R)
				f, l := ref.Period(y, m, d)
				ok := true
				for _, p := range set {
					if !(l < p.f || p.l < f) {
						ok = false
					}
				}
				if ok {
					set = append(set, per{f, l, spell(y, m, d)})
				}
			}
			c.R.Shuffle(len(set), func(a, b int) { set[a], set[b] = set[b], set[a] })
			var nodes gedcom.DateNodes
			lo, hi := set[0], set[0]
			for _, p := range set {
				nodes = append(nodes, gedcom.NewDateNode(p.text))
				if p.f < lo.f {
					lo = p
				}
				if p.l > hi.l {
					hi = p
				}
			}
			c.Count("minimum-maximum-sets", 1)
			if got := nodes.Minimum(); got == nil || got.Value() != lo.text {
				c.Violation("minimum:"+c05Class(y1, m1, d1)+"/"+c05Class(y2, m2, d2), fmt.Sprintf("DateNodes.Minimum of %v is %v, the earliest is %s", nodes, got, lo.text), []int{y1, m1, d1, y2, m2, d2})
			}
			if got := nodes.Maximum(); got == nil || got.Value() != hi.text {
				c.Violation("maximum:"+c05Class(y1, m1, d1)+"/"+c05Class(y2, m2, d2), fmt.Sprintf("DateNodes.Maximum of %v is %v, the latest is %s", nodes, got, hi.text), []int{y1, m1, d1, y2, m2, d2})
			}
		}
	}
	_ = k
	// The same functions called from several goroutines at once (they are, by
	// the matching pipeline and the publisher): every goroutine must get what
	// a single goroutine gets. 8 goroutines x 400 dates, each date first
	// evaluated alone.
	type probe struct {
		d     gedcom.Date
		t     int64
		years float64
	}
	lists := make([][]probe, 8)
	for g := range lists {
		for x := 0; x < 400; x++ {
			y, m, d := c05RandDate(c.R)
			dt := gedcom.Date{Day: d, Month: time.Month(m), Year: y, IsEndOfRange: c.R.Bool()}
			lists[g] = append(lists[g], probe{dt, dt.Time().UnixNano() / 1000, dt.Years()})
		}
	}
	type bad struct {
		p     probe
		t     int64
		years float64
	}
	found := make(chan bad, 8)
	var wg sync.WaitGroup
	for g := range lists {
		wg.Add(1)
		go func(ps []probe) {
			defer wg.Done()
			for round := 0; round < 5; round++ {
				for _, p := range ps {
					if t, ys := p.d.Time().UnixNano()/1000, p.d.Years(); t != p.t || ys != p.years {
						select {
						case found <- bad{p, t, ys}:
						default:
						}
						return
					}
				}
			}
		}(lists[g])
	}
	wg.Wait()
	c.Count("parallel-evaluations", 8*400*5)
	select {
	case b := <-found:
		c.Violation("parallel-evaluation-differs", fmt.Sprintf("Date%+v evaluated while 7 other goroutines evaluate other dates: Time()=%d us Years()=%v, alone: %d us / %v", b.p.d, b.t, b.years, b.p.t, b.p.years), []int{b.p.d.Year, int(b.p.d.Month), b.p.d.Day})
	default:
	}
}
