package props

import (
	"bytes"
	"crypto/sha256"
	"fmt"
	"os"
	"os/exec"
	"path/filepath"
	"runtime"
	"sort"
	"strings"
	"sync"
	"time"

	"github.com/elliotchance/gedcom/v39"
	"github.com/elliotchance/gedcom/v39/html"

	"verif/fw"
	"verif/gen"
)

// C19 — publishing yields a closed, confined, deterministic set of files.
// The worker is the -race build; race reports are collected by the supervisor.

func c19Doc(r *fw.Rand, hostile bool) (string, []string) { return c19DocF(r, hostile, -1) }

// c19DocF: first is the index of the first hostile feature (stratification), -1 = random.
func c19DocF(r *fw.Rand, hostile bool, first int) (string, []string) {
	// a third of the documents start late enough for living people (visibility then matters)
	g := gen.NewFG(r, gen.FGOpts{People: r.Range(2, 14), MultiNames: true, WithSources: true, NoLiving: r.Bool(), StartYear: []int{1800, 1880, 1950}[r.Intn(3)]})
	var notes []string
	if hostile {
		pick := func() *gen.Person { return g.People[r.Intn(len(g.People))] }
		for k := r.Range(1, 3); k > 0; k-- {
			feature := r.Intn(c19Features)
			if first >= 0 {
				feature, first = first%c19Features, -1
			}
			switch feature {
			case 0: // hostile source pointers
				p := []string{"../x", "a/b", "places", "individuals-a", "..", "S 1", "a\\b", "statistics", "../../y"}[r.Intn(9)]
				g.Sources = append(g.Sources, &gen.Source{Ptr: p, Title: "Hostile pointer"})
				pick().Extra = append(pick().Extra, &gen.Spec{Tag: "SOUR", Value: "@" + p + "@"})
				notes = append(notes, "source-pointer:"+p)
			case 1: // person named like a fixed page
				w := []string{"Places", "Statistics", "Families", "Sources", "Surnames", "Individuals /A/"}[r.Intn(6)]
				p := pick()
				p.Given, p.Surname = "", w
				if strings.Contains(w, "/") {
					p.Given, p.Surname = "Individuals", "A"
				}
				notes = append(notes, "person-named-like-fixed-page:"+w)
			case 2: // person and place collapsing to the same key
				p := pick()
				p.Given, p.Surname = "St", "Ives"
				q := pick()
				q.Events = append(q.Events, &gen.Ev{Tag: "RESI", Y: 1850, M: 1, D: 1, Place: "St. Ives"})
				notes = append(notes, "person-vs-place-key")
			case 3: // two places collapsing to the same key
				a, b := pick(), pick()
				a.Events = append(a.Events, &gen.Ev{Tag: "RESI", Y: 1851, M: 1, D: 1, Place: "St. Ives"})
				b.Events = append(b.Events, &gen.Ev{Tag: "RESI", Y: 1852, M: 1, D: 1, Place: "St Ives"})
				notes = append(notes, "same-key-places")
			case 4: // two people with the same name
				a, b := pick(), pick()
				b.Given, b.Surname = a.Given, a.Surname
				notes = append(notes, "same-name-people")
			case 5: // surnames starting with digits, symbols, multi-byte letters
				p := pick()
				p.Surname = []string{"9lives", "(unknown)", "Østergaard", "'t Hart", "小龍", "İstanbul", "\u212Aelvin", "ǅemal", "ß-Straße", "\u0130", "Åberg", "élan"}[r.Intn(12)]
				notes = append(notes, "odd-surname-initial")
			case 6: // empty names
				p := pick()
				if r.Bool() {
					p.NoName = true
				} else {
					p.Given, p.Surname = "", ""
				}
				notes = append(notes, "empty-name")
			case 7: // place named like a fixed page
				w := []string{"Families", "Places", "Sources"}[r.Intn(3)]
				pick().Events = append(pick().Events, &gen.Ev{Tag: "RESI", Y: 1853, M: 1, D: 1, Place: w})
				notes = append(notes, "place-named-like-fixed-page:"+w)
			case 8: // hostile individual pointer
				p := pick()
				old := p.Ptr
				p.Ptr = []string{"../i", "a/b", "I 1"}[r.Intn(3)]
				notes = append(notes, "individual-pointer:"+p.Ptr)
				_ = old
			case 9: // two individuals with the same pointer
				a, b := pick(), pick()
				if a != b {
					b.Ptr = a.Ptr
					notes = append(notes, "duplicate-individual-pointer")
				}
			case 10: // two sources with the same pointer
				if len(g.Sources) > 0 {
					g.Sources = append(g.Sources, &gen.Source{Ptr: g.Sources[0].Ptr, Title: "Second source with the same pointer"})
					notes = append(notes, "duplicate-source-pointer")
				}
			case 11: // two sources whose pointers differ only in characters that cannot be in a file name
				pr := [][2]string{{"a/b", "a-b"}, {"S 9", "S-9"}, {"x..y", "x-y"}, {"../k", "-k"}}[r.Intn(4)]
				g.Sources = append(g.Sources, &gen.Source{Ptr: pr[0], Title: "First of a pair"}, &gen.Source{Ptr: pr[1], Title: "Second of a pair"})
				pick().Extra = append(pick().Extra, &gen.Spec{Tag: "SOUR", Value: "@" + pr[0] + "@"})
				pick().Extra = append(pick().Extra, &gen.Spec{Tag: "SOUR", Value: "@" + pr[1] + "@"})
				notes = append(notes, "source-pointers-same-file-name:"+pr[0])
			case 12: // a source whose pointer is the page key of a person or of a place
				p := pick()
				key := strings.ToLower(p.Given + "-" + p.Surname)
				if r.Bool() {
					q := pick()
					q.Events = append(q.Events, &gen.Ev{Tag: "RESI", Y: 1854, M: 1, D: 1, Place: "Upper Hutt"})
					key = "upper-hutt"
				}
				g.Sources = append(g.Sources, &gen.Source{Ptr: key, Title: "Pointer equal to a page key"})
				pick().Extra = append(pick().Extra, &gen.Spec{Tag: "SOUR", Value: "@" + key + "@"})
				notes = append(notes, "source-pointer-equals-page-key:"+key)
			case 13: // somebody without a name (what else could their page be named after?) whose pointer is hostile
				p := pick()
				switch r.Intn(3) {
				case 0:
					p.NoName = true
				case 1:
					p.Given, p.Surname = "", ""
				default:
					p.Given, p.Surname = "", "?"
				}
				p.Names = nil
				p.Ptr = []string{"../x", "a/b", "..", "places", "index", "../../etc/x", "a\\b", "I 1", "."}[r.Intn(9)]
				notes = append(notes, "nameless-individual-with-pointer:"+p.Ptr)
			case 14: // several people without a name, or whose names have no letter or digit
				for q := r.Range(2, 4); q > 0; q-- {
					p := pick()
					p.Names = nil
					switch r.Intn(3) {
					case 0:
						p.NoName = true
					case 1:
						p.Given, p.Surname = "", ""
					default:
						p.Given, p.Surname = []string{"?", "...", "--"}[r.Intn(3)], []string{"?", "(?)", ""}[r.Intn(3)]
					}
				}
				notes = append(notes, "several-nameless-people")
			case 15: // people of the same name with the same event in the same year at the same place (nothing a page is sorted by tells them apart)
				a, b := pick(), pick()
				for tries := 0; a == b && tries < 20; tries++ {
					b = pick()
				}
				b.Given, b.Surname = a.Given, a.Surname
				b.Names, a.Names = nil, nil
				tag := []string{"DEAT", "RESI", "BIRT"}[r.Intn(3)]
				y := r.Range(1700, 1900)
				text := []string{fmt.Sprint(y), fmt.Sprintf("Mar %d", y), fmt.Sprintf("3 Mar %d", y)}[r.Intn(3)]
				for _, p := range []*gen.Person{a, b} {
					var kept []*gen.Ev
					for _, e := range p.Events {
						if e.Tag != tag {
							kept = append(kept, e)
						}
					}
					p.Events = append(kept, &gen.Ev{Tag: tag, Y: y, Text: text, Place: "Twin Falls, Idaho, USA"})
				}
				notes = append(notes, "same-name-same-event-same-year-same-place")
			}
		}
	}
	return g.Text(), notes
}

const c19Features = 16

func c19N(tier string) int {
	if tier == "thorough" {
		return 800
	}
	return 60
}

func init() {
	fw.Register(&fw.Prop{
		ID:         "C19",
		CaseCPU:    3600,
		Title:      "Publishing yields a closed, confined, deterministic set of files",
		Race:       true,
		NeedsCLI:   true,
		MaxWorkers: 16,
		Level:      "fault_enumeration",
		Cases:      func(tier string, seed uint64) int { return c19N(tier) },
		Run:        c19Run,
		Batch:      func(tier string, n int) int { return 1 },
		Rule: "generated family graphs, half of them with hostile features (source and individual pointers with path separators or equal to fixed page names, people and places named like fixed pages or collapsing to the same file key, same-name people, surnames starting with digits/symbols/multi-byte letters, empty names) x visibility x page-group subsets, published into a recording FileWriter by the race-built worker. " +
			"monitors: plain file names; no name written twice; every href / location.href target (fragment stripped, external links excluded) is '#' or a written file; determinism differential (3 repetitions, jobs 1/2/8/16, seeded schedule perturbation at the pub.* hooks, publish(A) before publish(B) vs B alone, the same document object re-published under a sequence of different options vs fresh decodes); race-detector logs; FAULT ENUMERATION: a writer that fails at the k-th file for EVERY k (jobs 1; a rotating sample of k for jobs 2 and 8), once or from there on (Publish must return an error, with jobs=1 no WriteFile call may follow the failing one, Publish must return: two goroutine dumps in a row in which the publisher is parked and nothing of the library can run are a violation); every 3rd case the real 'gedcom publish' into a scratch directory (nothing created outside the output directory; identical to the library output), and then again under strace, which makes the k-th write / openat / close on an output file fail with ENOSPC, EIO, EACCES, EDQUOT or EMFILE, once or from there on, with 1, 4 and 8 jobs: whenever strace's log shows a failed call the command must end, and not with status 0. non-trivial = site with at least 5 files and one internal link; distinct by text + options",
		Floors: func(a *fw.Agg, tier string) []string {
			var f []string
			for _, k := range []string{"sites", "links-checked", "determinism-comparisons", "fault-injections", "after-other-document", "cli-runs", "hostile-documents"} {
				if a.Counters[k] < 20 {
					f = append(f, fmt.Sprintf("%s=%d < 20", k, a.Counters[k]))
				}
			}
			if a.Counters["real-file-system-faults-skipped-strace-not-usable"] == 0 && a.Counters["real-file-system-faults"] < 10 {
				f = append(f, fmt.Sprintf("real-file-system-faults=%d < 10", a.Counters["real-file-system-faults"]))
			}
			if n := a.ClassCount("consume-interleaving"); n < 20 {
				f = append(f, fmt.Sprintf("only %d distinct consumer interleavings observed (< 20)", n))
			}
			return f
		},
		Assumptions: []string{
			"external template links (http/https) are excluded from closure",
			"a watchdog firing on Publish is a violation only if the goroutine dump proves that nothing is runnable; otherwise inconclusive",
		},
	})
}

func c19Canon(s *site) string {
	var sb strings.Builder
	for _, n := range s.names() {
		fmt.Fprintf(&sb, "%s=%x\n", n, sha256.Sum256(s.Files[n]))
	}
	return sb.String()
}

func c19FirstDiff(a, b *site) string {
	an, bn := a.names(), b.names()
	if strings.Join(an, ",") != strings.Join(bn, ",") {
		return fmt.Sprintf("file sets differ: %v vs %v", an, bn)
	}
	for _, n := range an {
		if !bytes.Equal(a.Files[n], b.Files[n]) {
			x, y := a.Files[n], b.Files[n]
			k := 0
			for k < len(x) && k < len(y) && x[k] == y[k] {
				k++
			}
			return fmt.Sprintf("%s differs at byte %d: ...%s... vs ...%s...", n, k, x[maxInt0(k-80):minInt(k+80, len(x))], y[maxInt0(k-80):minInt(k+80, len(y))])
		}
	}
	return ""
}

func c19Cause(detail string, notes []string) string {
	for _, n := range notes {
		k := n
		if i := strings.IndexByte(k, ':'); i >= 0 {
			k = k[:i]
		}
		return k
	}
	return "plain-document"
}

func c19Run(c *fw.Ctx, i int) {
	r := c.R
	hostile := i%2 == 1
	text, notes := c19DocF(r, hostile, i/2)
	if hostile {
		c.Count("hostile-documents", 1)
	}
	if _, err := gedcom.NewDocumentFromString(text); err != nil {
		c.HarnessError("C19 document does not decode: " + err.Error())
		return
	}
	vis := []html.LivingVisibility{html.LivingVisibilityShow, html.LivingVisibilityHide, html.LivingVisibilityPlaceholder}[i%3]
	mask := 63
	if i%4 == 3 {
		mask = r.Intn(64)
	}
	opts := func() *html.PublishShowOptions { return groupsFromMask(mask, vis) }
	payload := map[string]interface{}{"gedcom": text, "visibility": string(vis), "page_groups_mask": fmt.Sprintf("%06b", mask), "hostile_features": notes}
	_ = c19Cause
	html.VerifSetHook(nil)

	base, err := publish(text, opts(), 1, 0)
	if err != nil || base.Err != nil {
		c.Violation("publish-failed", fmt.Sprintf("publish failed: %v %v", err, base.Err), payload)
		return
	}
	c.Count("sites", 1)

	// ---- names ----
	for _, n := range base.names() {
		if n == "" || n == "." || n == ".." || strings.ContainsAny(n, "/\\\x00") {
			kind := "other"
			for _, nt := range notes {
				if strings.HasPrefix(nt, "source-pointer") {
					kind = "source-pointer"
				}
				if strings.HasPrefix(nt, "individual-pointer") && kind == "other" {
					kind = "individual-pointer"
				}
			}
			c.Violation("unconfined:"+kind, fmt.Sprintf("file name %q is not a plain name inside the output directory", n), payload)
		}
	}
	dupCause := func(dups []string) string {
		set := map[string]bool{}
		for _, d := range dups {
			switch {
			case d == "places.html" || d == "families.html" || d == "surnames.html" || d == "sources.html" || d == "statistics.html":
				set["fixed-page-name"] = true
			case strings.HasPrefix(d, "individuals-"):
				set["letter-page-name"] = true
			default:
				set["person-place-or-source-key"] = true
			}
		}
		var ks []string
		for k := range set {
			ks = append(ks, k)
		}
		sort.Strings(ks)
		return strings.Join(ks, "+")
	}
	if len(base.Dups) > 0 {
		c.Violation("collision:"+dupCause(base.Dups), fmt.Sprintf("file name(s) written more than once in one publish: %v", base.Dups), payload)
	}
	// ---- closure ----
	internal := 0
	for _, n := range base.names() {
		for _, l := range pageLinks(base.Files[n]) {
			t := l
			if k := strings.IndexByte(t, '#'); k >= 0 {
				t = t[:k]
			}
			if strings.HasPrefix(t, "http://") || strings.HasPrefix(t, "https://") || strings.HasPrefix(t, "//") {
				continue
			}
			c.Count("links-checked", 1)
			if t == "" {
				continue // "#" or "#fragment"
			}
			internal++
			if _, ok := base.Files[t]; !ok {
				kind := "other"
				switch {
				case strings.HasPrefix(t, "individuals-"):
					kind = "letter-page"
				case t == "places.html" || t == "families.html" || t == "surnames.html" || t == "sources.html" || t == "statistics.html":
					kind = "fixed-page"
				}
				groups := "all-groups-on"
				if mask != 63 {
					groups = "some-groups-off"
				}
				why := "key-mismatch"
				switch {
				case kind == "letter-page" && mask&1 == 0:
					why = "individuals-group-off"
				case kind == "letter-page":
					why = "surname-initial-without-letter-page"
				case kind == "fixed-page":
					why = "page-group-off"
				case mask&1 == 0:
					why = "individuals-group-off"
				case mask&2 == 0:
					why = "places-group-off"
				case len(base.Dups) > 0:
					why = "after-collision"
				}
				_ = groups
				c.Violation("broken-link:"+kind+":"+why, fmt.Sprintf("page %s links to %q, which is not a generated file (mask %06b, -living %s)", n, l, mask, vis), payload)
				break
			}
		}
	}
	if len(base.Files) >= 5 && internal > 0 {
		c.NontrivialStr(fmt.Sprint(text, mask, vis))
	}
	// ---- determinism ----
	want := c19Canon(base)
	cmp := func(how string, s *site) {
		c.Count("determinism-comparisons", 1)
		if s.Err != nil {
			c.Violation("publish-failed:"+how, fmt.Sprintf("publish failed (%s): %v", how, s.Err), payload)
			return
		}
		if c19Canon(s) != want {
			why := "no-collision"
			if len(base.Dups) > 0 || len(s.Dups) > 0 {
				why = "same-name-written-twice"
			} else if strings.Contains(c19FirstDiff(base, s), "St") && strings.Contains(strings.Join(notes, " "), "same-key-places") {
				why = "two-places-with-the-same-key"
			}
			if i := strings.IndexByte(how, '='); i >= 0 {
				how = how[:i]
			}
			c.Violation("nondeterministic:"+how+":"+why, fmt.Sprintf("the published files differ (%s) from the first publish of the same document and options: %s", how, clip(c19FirstDiff(base, s), 900)), payload)
		}
		if len(s.Dups) > 0 {
			c.Violation("collision:"+dupCause(s.Dups), fmt.Sprintf("file name(s) written more than once (%s): %v", how, s.Dups), payload)
		}
	}
	for rep := 0; rep < 2; rep++ {
		s, _ := publish(text, opts(), 1, 0)
		cmp("repetition", s)
	}
	for _, jobs := range []int{2, 8, 16} {
		s, _ := publish(text, opts(), jobs, 0)
		cmp(fmt.Sprintf("jobs=%d", jobs), s)
	}
	// perturbed schedules
	for rep := 0; rep < 2; rep++ {
		pr := fw.NewRand(fw.Mix(c.Seed, uint64(i), uint64(rep), 19))
		var order []string
		var mu = make(chan struct{}, 1)
		mu <- struct{}{}
		html.VerifSetHook(func(point string, a, b interface{}) {
			<-mu
			act := pr.Intn(8)
			d := time.Duration(10+pr.Intn(400)) * time.Microsecond
			if point == "pub.consume" {
				order = append(order, fmt.Sprint(c11Gid()))
			}
			mu <- struct{}{}
			switch act {
			case 0:
				runtime.Gosched()
			case 1, 2:
				time.Sleep(d)
			}
		})
		s, _ := publish(text, opts(), 4, 0)
		html.VerifSetHook(nil)
		cmp("perturbed-schedule-jobs=4", s)
		idx := map[string]int{}
		var norm []string
		for _, g := range order {
			if _, ok := idx[g]; !ok {
				idx[g] = len(idx)
			}
			norm = append(norm, fmt.Sprint(idx[g]))
		}
		if len(idx) > 1 {
			c.Class("consume-interleaving", fmt.Sprintf("%x", fw.HashStr(strings.Join(norm, ","))))
		}
	}
	// publish(A) before publish(B) in one process
	{
		other, _ := c19Doc(fw.NewRand(fw.Mix(c.Seed, uint64(i), 77)), false)
		// every second case the two publishes share ONE options value, as a
		// program that publishes several files with the same settings would
		shared := opts()
		if i%2 == 0 {
			publish(other, allGroups(html.LivingVisibilityShow), 1, 0)
		} else {
			publish(other, shared, 1, 0)
			c.Count("after-other-document-with-the-same-options-value", 1)
		}
		s, _ := publish(text, shared, 1, 0)
		c.Count("after-other-document", 1)

		if s.Err == nil && c19Canon(s) != want {
			why := "no-collision"
			if len(base.Dups) > 0 || len(s.Dups) > 0 {
				why = "same-name-written-twice"
			} else if strings.Contains(strings.Join(notes, " "), "same-key-places") {
				why = "two-places-with-the-same-key"
			}
			c.Violation("stale-across-publishes:"+why, fmt.Sprintf("publishing another document first changes the output: %s", clip(c19FirstDiff(base, s), 900)), payload)
		}
	}
	// the same *Document published several times under different options in one
	// process: each site must be what a fresh decode gives under those options
	{
		doc, err := gedcom.NewDocumentFromString(text)
		if err == nil {
			seq := []*html.PublishShowOptions{
				groupsFromMask(0b111101, html.LivingVisibilityShow), // places off
				allGroups(html.LivingVisibilityShow),
				allGroups(html.LivingVisibilityHide),
				groupsFromMask(0b111110, html.LivingVisibilityPlaceholder), // individuals off
				opts(),
			}
			for k, o := range seq {
				got := publishDoc(doc, o, 1+k%2*3, 0)
				fresh, _ := publish(text, o, 1, 0)
				c.Count("same-document-republished", 1)
				if got.Err == nil && fresh != nil && fresh.Err == nil && c19Canon(got) != c19Canon(fresh) {
					c.Violation("stale-across-publishes:same-document-other-options", fmt.Sprintf("publishing the same document object again under other options (step %d of the sequence places-off, all, hide, individuals-off, case options) gives a different site than a fresh decode under the same options: %s", k+1, clip(c19FirstDiff(fresh, got), 900)), payload)
					break
				}
			}
		}
	}
	// ---- fault enumeration ----
	nFiles := base.Calls
	maxK := 40
	if c.Thorough() {
		maxK = 150
	}
	if nFiles > maxK {
		nFiles = maxK
		c.Count("sites-with-more-files-than-enumerated", 1)
	}
	inject := func(jobs, k int, persistent bool) bool {
		c.Count("fault-injections", 1)
		mode := "once"
		if persistent {
			mode = "from-there-on"
			c.Count("fault-injections-persistent", 1)
		}
		doc, _ := gedcom.NewDocumentFromString(text)
		w := &recorder{failAt: int64(k), persistent: persistent}
		done := make(chan error, 1)
		go func() { done <- html.NewPublisher(doc, opts()).Publish(w, jobs) }()
		var perr error
		// Publish must return. Whether it is stuck is read off the goroutines,
		// not off the clock: two dumps in a row in which the publisher is parked
		// and nothing of the library can run.
		blocked := 0
		for waited := 0; ; waited++ {
			select {
			case perr = <-done:
			case <-time.After(2 * time.Second):
				if ok, dump := repoGoroutinesBlocked("html.(*Publisher).Publish"); ok {
					blocked++
					if blocked >= 2 {
						c.Violation(fmt.Sprintf("fault:publish-does-not-return:%s:jobs=%s", mode, map[bool]string{true: "1", false: ">1"}[jobs == 1]), fmt.Sprintf("the file writer failed at file %d of %d (%s, jobs=%d) and Publish never returns: every goroutine of the library is parked\n%s", k, base.Calls, mode, jobs, clip(dump, 3000)), payload)
						return false
					}
				} else {
					blocked = 0
				}
				if waited > 90 {
					c.Inconclusive("publish-with-failing-writer-watchdog")
					return false
				}
				continue
			}
			break
		}
		if perr == nil {
			c.Violation(fmt.Sprintf("fault:returned-nil:%s:jobs=%s", mode, map[bool]string{true: "1", false: ">1"}[jobs == 1]), fmt.Sprintf("the file writer failed at file %d of %d (%s, jobs=%d) but Publish returned nil", k, base.Calls, mode, jobs), payload)
		}
		if jobs == 1 {
			files := w.all()
			if len(files) > k {
				c.Violation("fault:writes-after-failure:jobs=1", fmt.Sprintf("the writer failed at file %d but %d WriteFile calls were made (jobs=1)", k, len(files)), payload)
			}
		}
		return true
	}
	for _, jobs := range []int{1, 2, 8} {
		for k := 1; k <= nFiles; k++ {
			// every k for jobs=1; for jobs 2 and 8 the first two, the last and a rotating sample
			// (quick: every 8th, thorough: every 3rd)
			step := 8
			if c.Thorough() {
				step = 3
			}
			if jobs != 1 && k > 2 && k != nFiles && k%step != i%step {
				continue
			}
			if !inject(jobs, k, false) {
				return
			}
		}
		// a failure that does not go away (full disk, missing directory): from
		// the first file, from one in the middle, from the last but one
		ks := []int{1, nFiles/2 + 1, maxInt0(nFiles - 1)}
		if !c.Thorough() {
			ks = ks[(i+jobs)%3 : (i+jobs)%3+1] // quick: one of the three per job count, rotating
		}
		for _, k := range ks {
			if k >= 1 && k <= nFiles {
				if !inject(jobs, k, true) {
					return
				}
			}
		}
	}
	// ---- the real binary ----
	if bin := os.Getenv("VERIF_GEDCOM_BIN"); bin != "" && i%3 == 0 {
		dir := os.Getenv("VERIF_SCRATCH")
		if dir == "" {
			dir = os.TempDir()
		}
		sandbox := filepath.Join(dir, fmt.Sprintf("c19-%d-%d", os.Getpid(), i))
		out := filepath.Join(sandbox, "deep", "out")
		os.MkdirAll(out, 0o755)
		defer os.RemoveAll(sandbox)
		in := filepath.Join(sandbox, "in.ged")
		os.WriteFile(in, []byte(text), 0o644)
		// Every second run the output directory is not empty: it holds longer
		// files under the names that are about to be written (an earlier, larger
		// publish). What is published now must replace them completely.
		if i%2 == 1 {
			c.Count("cli-runs-into-a-used-directory", 1)
			for name, body := range base.Files {
				if strings.ContainsAny(name, "/\\\x00") || name == "." || name == ".." || name == "" {
					continue
				}
				os.WriteFile(filepath.Join(out, name), append(append([]byte{}, body...), bytes.Repeat([]byte("<!-- left over from an earlier publish -->\n"), 50)...), 0o644)
			}
		}
		args := []string{"publish", "-gedcom", in, "-output-dir", out, "-living", string(vis), "-jobs", "4"}
		for bit, flag := range []string{"-no-individuals", "-no-places", "-no-families", "-no-surnames", "-no-sources", "-no-statistics"} {
			if mask&(1<<uint(bit)) == 0 {
				args = append(args, flag)
			}
		}
		outS, err, okRun := runCLI(c, "cli-publish", payload, append(os.Environ(), "GORACE=halt_on_error=0 exitcode=0 log_path="+filepath.Join(sandbox, "race")), 600, bin, args...)
		outb := []byte(outS)
		c.Count("cli-runs", 1)
		if !okRun {
			return
		}
		if CrashedGo(string(outb), err) {
			c.Violation("cli-publish-crash", fmt.Sprintf("gedcom publish crashed:\n%s", clip(string(outb), 1200)), payload)
		}
		// nothing outside the output directory
		var outside []string
		filepath.Walk(sandbox, func(p string, info os.FileInfo, err error) error {
			if err != nil || info.IsDir() {
				return nil
			}
			rel, _ := filepath.Rel(sandbox, p)
			if rel == "in.ged" || strings.HasPrefix(rel, "race.") {
				return nil
			}
			if filepath.Dir(p) != out {
				outside = append(outside, rel)
			}
			return nil
		})
		if len(outside) > 0 {
			c.Violation("unconfined:files-created-outside-output-directory", fmt.Sprintf("gedcom publish -output-dir %s created %v", "deep/out", outside), payload)
		}
		if err == nil {
			cli := &site{Files: map[string][]byte{}}
			entries, _ := os.ReadDir(out)
			for _, e := range entries {
				b, _ := os.ReadFile(filepath.Join(out, e.Name()))
				cli.Files[e.Name()] = b
			}
			if len(base.Dups) == 0 && c19Canon(cli) != want {
				why := "no-collision"
				if strings.Contains(strings.Join(notes, " "), "same-key-places") {
					why = "two-places-with-the-same-key"
				}
				c.Violation("nondeterministic:cli-vs-library:"+why, fmt.Sprintf("the files written by gedcom publish differ from the library output: %s", clip(c19FirstDiff(base, cli), 900)), payload)
			}
		}
		logs, _ := filepath.Glob(filepath.Join(sandbox, "race.*"))
		for _, lf := range logs {
			data, _ := os.ReadFile(lf)
			for _, rep := range fw.ParseRaceLog(string(data)) {
				c.Violation("cli-publish-"+rep.Sig(), fmt.Sprintf("gedcom publish -jobs 4 (built with -race):\n%s", clip(rep.Text, 2500)), payload)
			}
		}
		if err == nil && len(base.Dups) == 0 {
			c19RealFaults(c, i, bin, sandbox, out, args, base.names(), payload)
		}
	}
	if c.WantSample("site") {
		sort.Strings(notes)
		c.Sample("site", map[string]interface{}{"files": len(base.Files), "internal_links": internal, "visibility": string(vis), "mask": fmt.Sprintf("%06b", mask), "hostile_features": notes, "fault_points": nFiles})
	}
}

// ---- faults of the real file system under the real binary ----
//
// The failing writer above fails where the FileWriter interface says it may:
// WriteFile returns an error. The writer people use is DirectoryFileWriter,
// and what fails there is a system call: the file cannot be created, the
// disk is full in the middle of a page, the close reports a deferred write
// error. strace makes the k-th such call on an output file fail (once, or
// from there on) under 'gedcom publish'; the monitor reads strace's log for
// the calls that were really failed and demands what the property says:
// the command ends, and not with status 0.

var (
	c19StraceOnce sync.Once
	c19StraceOK   bool
)

func c19StraceUsable() bool {
	c19StraceOnce.Do(func() {
		p, err := exec.LookPath("strace")
		if err != nil {
			return
		}
		c19StraceOK = exec.Command(p, "-f", "-o", "/dev/null", "-e", "trace=close", "-e", "inject=close:error=EIO:when=60000", "/bin/true").Run() == nil
	})
	return c19StraceOK
}

var c19FaultPlans = []struct {
	call, errno string
}{
	{"write", "ENOSPC"}, {"openat", "ENOSPC"}, {"close", "EIO"}, {"write", "EIO"}, {"openat", "EACCES"}, {"close", "ENOSPC"}, {"write", "EDQUOT"}, {"openat", "EMFILE"},
}

func c19RealFaults(c *fw.Ctx, i int, bin, sandbox, out string, args []string, names []string, payload interface{}) {
	if !c19StraceUsable() {
		c.Count("real-file-system-faults-skipped-strace-not-usable", 1)
		return
	}
	var paths []string
	for _, n := range names {
		if n == "" || n == "." || n == ".." || strings.ContainsAny(n, "/\\\x00") {
			return
		}
		paths = append(paths, "-P", filepath.Join(out, n))
	}
	if len(paths) == 0 || len(paths) > 600 {
		return
	}
	rounds := 3
	if c.Thorough() {
		rounds = 6
	}
	for rnd := 0; rnd < rounds; rnd++ {
		plan := c19FaultPlans[(i/3+rnd*3)%len(c19FaultPlans)]
		k := []int{1, 2, 3, 7, 20, 61}[(i/3+rnd)%6]
		if plan.call != "write" && k > len(names) {
			k = 1 + (i+rnd)%len(names)
		}
		persistent := (i/3+rnd)%2 == 1
		jobs := []string{"1", "4", "8"}[(i/3+rnd)%3]
		when := fmt.Sprint(k)
		mode := "once"
		if persistent {
			when += "+"
			mode = "from-there-on"
		}
		os.RemoveAll(out)
		os.MkdirAll(out, 0o755)
		stlog := filepath.Join(sandbox, fmt.Sprintf("strace-%d.log", rnd))
		sargs := []string{"-f", "-o", stlog, "-e", "trace=" + plan.call, "-e", fmt.Sprintf("inject=%s:error=%s:when=%s", plan.call, plan.errno, when)}
		sargs = append(sargs, paths...)
		sargs = append(sargs, bin)
		for j := 0; j < len(args); j++ {
			if args[j] == "-jobs" && j+1 < len(args) {
				sargs = append(sargs, "-jobs", jobs)
				j++
				continue
			}
			sargs = append(sargs, args[j])
		}
		outS, err, okRun := runCLI(c, "cli-publish-under-fault", payload, append(os.Environ(), "GORACE=halt_on_error=0 exitcode=0 log_path="+filepath.Join(sandbox, "race-fault")), 600, "strace", sargs...)
		if !okRun {
			return
		}
		logb, _ := os.ReadFile(stlog)
		injected := strings.Count(string(logb), "(INJECTED)")
		if injected == 0 {
			c.Count("real-file-system-faults-not-reached", 1)
			if err != nil {
				// nothing was failed, so the command has no reason to fail
				c.Violation("fault:real-file-system:failed-without-a-fault", fmt.Sprintf("gedcom publish (jobs %s) under strace with no call failed ended with %v:\n%s", jobs, err, clip(outS, 1200)), payload)
			}
			continue
		}
		c.Count("real-file-system-faults", 1)
		c.Class("real-file-system-fault", fmt.Sprintf("%s:%s:%s:jobs=%s", plan.call, plan.errno, mode, jobs))
		how := fmt.Sprintf("%s on an output file failed with %s (call %s of a thread, %s; %d calls failed in all; jobs %s)", plan.call, plan.errno, when, mode, injected, jobs)
		if err == nil {
			c.Violation("fault:real-file-system:exit-status-0:"+plan.call, fmt.Sprintf("%s and gedcom publish ended with status 0 as if the site had been written:\n%s", how, clip(outS, 1200)), payload)
			continue
		}
		if strings.Contains(outS, "panic: ") || strings.Contains(outS, "fatal error: ") {
			c.Count("real-file-system-faults-ending-in-a-go-panic(observed, not demanded otherwise)", 1)
		} else {
			c.Count("real-file-system-faults-ending-in-an-error-message", 1)
		}
	}
}
