package props

import (
	"bytes"
	"fmt"
	"os"
	"os/exec"
	"path/filepath"
	"reflect"
	"regexp"
	"sort"
	"strings"

	"github.com/elliotchance/gedcom/v39"
	"github.com/elliotchance/gedcom/v39/q"

	"verif/fw"
	"verif/gen"
)

// C15 — queries never crash: parse and evaluate return a value or an error,
// and every result can be handed to every formatter.

var c15Alphabet = []string{".Individuals", ".Name", ".Nope", ".", "X", "Y", "is", "Length", ";", "|", "?", "(", ")", "{", "}", ":", ",", "=", "!", "<", ">", `"s"`, "7", "First", "Only", "Combine", `"`}

const c15Block = 400

func c15MaxLen(tier string) int {
	if tier == "thorough" {
		return 4
	}
	return 3
}

func c15SeqCount(maxLen int) int {
	n, p := 0, 1
	for l := 1; l <= maxLen; l++ {
		p *= len(c15Alphabet)
		n += p
	}
	return n
}

// c15Seq returns the idx-th token sequence (shorter ones first).
func c15Seq(idx int) []string {
	l, p := 1, len(c15Alphabet)
	for idx >= p {
		idx -= p
		p *= len(c15Alphabet)
		l++
	}
	out := make([]string, l)
	for k := l - 1; k >= 0; k-- {
		out[k] = c15Alphabet[idx%len(c15Alphabet)]
		idx /= len(c15Alphabet)
	}
	return out
}

func c15Gen(tier string) int {
	if tier == "thorough" {
		return 20000 // x50 queries
	}
	return 1000
}

var c15Examples = []string{
	`.Individuals | Length`,
	`.Individuals | First(3) | { name: .Name | .String, born: .Birth | .String, died: .Death | .String}`,
	`.Individuals | .Name | .String`,
	`Names are .Individuals | .Name; Names | .String`,
	`Indi is .Individuals; Names are Indi | .Name; Names | .String`,
	`.Individuals | Only(.Age > 100)`,
	`.Individuals | NodesWithTagPath("BIRT", "DATE")`,
	`Births are .Individuals | NodesWithTagPath("BIRT", "DATE") | {type: "birth", date: .String}; Deaths are .Individuals | NodesWithTagPath("DEAT", "DATE") | {type: "death", date: .String}; Combine(Births, Deaths)`,
	`.Individuals | ?`,
	`.Individuals | {}`,
	`.Individuals | Last(2) | .Name`,
	`MergeDocumentsAndIndividuals(Document1, Document2) | .Individuals | .Name | .String`,
	`.Families | .Husband | .Individual | .Name | .String`,
	`.Individuals | Only(.Name | .String = "John Smith") | .Birth | .String`,
	`.Warnings | .String`,
	`.Individuals | .AllEvents | Length`,
	`.Sources | .Title`,
	`.Places`,
	`.Individuals | .Spouses`,
	`.Individuals | .Spouses | .Name | .String`,
	`.Individuals | .Parents`,
	`.Individuals | .Families | .Children`,
	`.Families | .Wife | .Individual`,
	`.Families | .Children | .Individual | .Name`,
	`.Individuals | .SpouseChildren`,
	`.Individuals | .AllEvents`,
	`.Individuals | .UniqueIdentifiers`,
}

// accessor universe discovered by reflection
var c15Types = []reflect.Type{
	reflect.TypeOf(&gedcom.Document{}), reflect.TypeOf(&gedcom.IndividualNode{}), reflect.TypeOf(&gedcom.FamilyNode{}),
	reflect.TypeOf(&gedcom.NameNode{}), reflect.TypeOf(&gedcom.DateNode{}), reflect.TypeOf(&gedcom.PlaceNode{}), reflect.TypeOf(&gedcom.SimpleNode{}),
	reflect.TypeOf(&gedcom.HusbandNode{}), reflect.TypeOf(&gedcom.WifeNode{}), reflect.TypeOf(&gedcom.ChildNode{}), reflect.TypeOf(&gedcom.BirthNode{}),
	reflect.TypeOf(&gedcom.SourceNode{}), reflect.TypeOf(&gedcom.SexNode{}), reflect.TypeOf(gedcom.IndividualNodes{}), reflect.TypeOf(gedcom.FamilyNodes{}),
	reflect.TypeOf(gedcom.Nodes{}), reflect.TypeOf(gedcom.DateRange{}), reflect.TypeOf(gedcom.Date{}), reflect.TypeOf(gedcom.Age{}), reflect.TypeOf(gedcom.Warnings{}),
	reflect.TypeOf(gedcom.ChildNodes{}), reflect.TypeOf(gedcom.Tag{}), reflect.TypeOf(&gedcom.UniqueIDNode{}), reflect.TypeOf(&gedcom.ResidenceNode{}), reflect.TypeOf(&gedcom.EventNode{}),
}

var c15AllAccessors = func() []string {
	set := map[string]bool{}
	for _, t := range c15Types {
		for i := 0; i < t.NumMethod(); i++ {
			set["."+t.Method(i).Name] = true
		}
		e := t
		if e.Kind() == reflect.Ptr {
			e = e.Elem()
		}
		if e.Kind() == reflect.Struct {
			for i := 0; i < e.NumField(); i++ {
				set["."+e.Field(i).Name] = true
			}
		}
	}
	var o []string
	for k := range set {
		o = append(o, k)
	}
	sort.Strings(o)
	return o
}()

func c15MethodsOf(t reflect.Type) []reflect.Method {
	var o []reflect.Method
	for i := 0; i < t.NumMethod(); i++ {
		o = append(o, t.Method(i))
	}
	return o
}

// c15Pipeline draws a well-formed query, mostly following types.
// c15IllTyped: stages that make reflection-based code panic when they meet
// the wrong kind of value.
var c15IllTyped = []string{
	`.String | NodesWithTagPath("BIRT")`, `First("-1")`, `Last("-1")`, `First(-1)`, `Combine(.Parents, .Spouses)`, `Combine(.Name, .Sex)`,
	`.Value | NodesWithTagPath("DATE")`, `.Nodes | .Nodes | First(1) | .Nodes`, `Combine | ?`, `.Name | ?`, `? | ?`, `.Nodes | {a: .Nodes} | .a > 1`,
	`.Nodes | .Nodes = .Nodes`, `.Age | .Years > .Nodes`, `Length | First(1)`, `.Pointer | Last(2)`, `.Nodes | Combine`, `MergeDocumentsAndIndividuals(.Name, .Sex)`,
	`.Families | .Husband | .Individual | .Name | NodesWithTagPath("GIVN") | Combine(.Value)`,
}

func c15Pipeline(r *fw.Rand, depth int) string {
	var parts []string
	cur := reflect.TypeOf(&gedcom.Document{})
	n := r.Range(1, 5)
	for k := 0; k < n; k++ {
		elem := cur
		if elem != nil && elem.Kind() == reflect.Slice {
			elem = elem.Elem()
		}
		switch {
		case r.Chance(6, 10): // accessor
			if elem != nil && elem.NumMethod() > 0 && r.Chance(4, 5) {
				ms := c15MethodsOf(elem)
				m := ms[r.Intn(len(ms))]
				parts = append(parts, "."+m.Name)
				if m.Type.NumOut() > 0 {
					out := m.Type.Out(0)
					if cur.Kind() == reflect.Slice {
						cur = reflect.SliceOf(out)
					} else {
						cur = out
					}
				} else {
					cur = nil
				}
			} else {
				parts = append(parts, c15AllAccessors[r.Intn(len(c15AllAccessors))])
				cur = nil
			}
		case r.Chance(1, 2): // function
			arg := func() string {
				switch r.Intn(6) {
				case 0:
					return fmt.Sprint(r.Intn(5))
				case 1:
					return `"` + []string{"BIRT", "DATE", "NAME", "x", "-1", "1e3", ""}[r.Intn(7)] + `"`
				case 2:
					if depth > 0 {
						return c15Pipeline(r, depth-1)
					}
					return ".Individuals"
				case 3:
					return c15AllAccessors[r.Intn(len(c15AllAccessors))] + []string{" = ", " != ", " > ", " >= ", " < ", " <= "}[r.Intn(6)] + []string{"1", `"a"`, ".Value", ".Tag"}[r.Intn(4)]
				case 4:
					return []string{"Document1", "Document2", "X", "Undefined"}[r.Intn(4)]
				}
				return ".Individuals"
			}
			fn := []string{"First", "Last", "Length", "Only", "Combine", "NodesWithTagPath", "MergeDocumentsAndIndividuals", "?"}[r.Intn(8)]
			na := r.Intn(4)
			if fn == "Length" || fn == "?" {
				if r.Chance(3, 4) {
					na = 0
				}
			}
			if na == 0 && r.Bool() {
				parts = append(parts, fn)
			} else {
				var as []string
				for a := 0; a < na; a++ {
					as = append(as, arg())
				}
				parts = append(parts, fn+"("+strings.Join(as, ", ")+")")
			}
			cur = nil
		case r.Chance(1, 2): // object
			nk := r.Intn(3)
			var kv []string
			for a := 0; a < nk; a++ {
				v := c15AllAccessors[r.Intn(len(c15AllAccessors))]
				if depth > 0 && r.Chance(1, 3) {
					v = c15Pipeline(r, depth-1)
				}
				kv = append(kv, fmt.Sprintf("k%d: %s", a, v))
			}
			parts = append(parts, "{"+strings.Join(kv, ", ")+"}")
			cur = nil
		default: // operator
			l := c15AllAccessors[r.Intn(len(c15AllAccessors))]
			op := []string{"=", "!=", ">", ">=", "<", "<="}[r.Intn(6)]
			rr := []string{"5", `"abc"`, ".Value", ".Pointer", "X"}[r.Intn(5)]
			parts = append(parts, l+" "+op+" "+rr)
			cur = nil
		}
	}
	qs := strings.Join(parts, " | ")
	if r.Chance(1, 8) {
		// a stage that is ill-typed for the elements it is applied to, inside
		// the functions that evaluate their argument once per element of a
		// list (lists of every size: the documents have up to 60 people)
		stage := c15IllTyped[r.Intn(len(c15IllTyped))]
		if r.Chance(1, 4) {
			stage = qs
		}
		src := []string{".Individuals", ".Families", ".Nodes", ".Individuals | .Nodes", ".Individuals | .Names", ".Sources", ".Places", "Document1 | .Individuals"}[r.Intn(8)]
		wrap := []string{"Only(%s)", "Only(%s = 1)", "{a: %s}", "%s", "Combine(%s)", "First(3) | Only(%s)", "Only(%s) | Length", "Only(.Pointer != \"\") | Only(%s)"}[r.Intn(8)]
		qs = src + " | " + fmt.Sprintf(wrap, stage)
	}
	if r.Chance(1, 4) {
		// variables, sometimes undefined / self-referential / mutually recursive
		switch r.Intn(12) {
		case 9, 10, 11:
			// a handful of variables that are other names for each other, for a
			// pipeline or for themselves, defined in any order (before or after
			// they are used), with the result taken from any of them: chains,
			// cycles, chains that lead into a cycle they are not part of
			n := r.Range(1, 5)
			names := []string{"People", "Everyone", "Living", "A", "B"}[:n]
			var stmts []string
			for k, v := range names {
				target := names[r.Intn(n)]
				var def string
				switch r.Intn(6) {
				case 0:
					def = []string{".Individuals", ".Families", qs}[r.Intn(3)]
				case 1:
					def = target + " | " + []string{"Only(.IsLiving)", "Length", ".Name", "First(2)", qs}[r.Intn(5)]
				default:
					def = target // nothing but another name
				}
				_ = k
				stmts = append(stmts, v+" "+[]string{"is", "are"}[r.Intn(2)]+" "+def)
			}
			perm := r.Perm(len(stmts))
			var ordered []string
			for _, pi := range perm {
				ordered = append(ordered, stmts[pi])
			}
			final := names[r.Intn(n)]
			if r.Chance(1, 3) {
				final += " | " + []string{"Length", ".Name | .String", "Only(.IsLiving)"}[r.Intn(3)]
			}
			// the use may come first: "Living are People | Only(.IsLiving); People are Everyone; ..."
			qs = strings.Join(ordered, "; ") + "; " + final
		case 5: // the variable refers to itself inside the argument of a function
			fn := []string{"Only", "First", "Last", "Combine", "NodesWithTagPath", "MergeDocumentsAndIndividuals"}[r.Intn(6)]
			base := []string{".Individuals", "Document1 | .Individuals", ".Families", ".Nodes", qs}[r.Intn(5)]
			qs = "X is " + base + " | " + fn + "(X); X"
		case 6:
			qs = "X is " + []string{".Individuals", ".Families", qs}[r.Intn(3)] + " | {a: X}; X"
		case 7:
			qs = "X is .Individuals | Only(Y); Y is .Individuals | Only(X); X"
		case 8:
			qs = "X is .Individuals | Only(.Name | X | .String = \"a\"); X | " + qs
		case 0:
			qs = "X is " + qs + "; X"
			// a variable named like the ones the engine defines for the documents
			if r.Chance(1, 3) {
				v := []string{"Document1", "Document2", "Document3", "Document0", "Document"}[r.Intn(5)]
				qs = v + " " + []string{"is", "are"}[r.Intn(2)] + " " + []string{".Individuals", ".Families", v, "Document1", "Document2 | .Individuals"}[r.Intn(5)] + "; " + []string{v, v + " | Length", "Document1 | .Individuals", "Document2", "?"}[r.Intn(5)]
			}
		case 1:
			qs = "X is " + qs + "; Y is X | Length; Y"
		case 2:
			qs = "X is X | " + qs + "; X"
		case 3:
			qs = "X is Y; Y is X | " + qs + "; Y"
		case 4:
			qs = "X are " + qs + "; Combine(X, X)"
		}
	}
	return qs
}

func c15Mutate(r *fw.Rand, qs string) string {
	toks := q.NewTokenizer().TokenizeString(qs).Tokens
	var ss []string
	for _, t := range toks {
		ss = append(ss, t.Value)
	}
	if len(ss) == 0 {
		return qs
	}
	for k := r.Range(1, 3); k > 0 && len(ss) > 0; k-- {
		p := r.Intn(len(ss))
		switch r.Intn(4) {
		case 0:
			ss = append(ss[:p], ss[p+1:]...)
		case 1:
			ss = append(ss[:p], append([]string{ss[p]}, ss[p:]...)...)
		case 2:
			o := r.Intn(len(ss))
			ss[p], ss[o] = ss[o], ss[p]
		case 3:
			ss[p] = c15Alphabet[r.Intn(len(c15Alphabet))]
		}
	}
	return strings.Join(ss, " ")
}

type c15Docs struct {
	texts []string
	names []string
}

func c15MakeDocs(r *fw.Rand) c15Docs {
	people := r.Range(3, 12)
	if r.Chance(1, 3) {
		people = r.Range(13, 60)
	}
	g := gen.NewFG(r, gen.FGOpts{People: people, MultiNames: true, MissingBits: true, WithUIDs: true, WithSources: true})
	g2 := gen.NewFG(r, gen.FGOpts{People: r.Range(1, 6), PtrPrefix: "J"})
	// a document with structural faults (dangling and wrong-kind references,
	// people without a name, empty values...): accessors then yield nil
	// elements inside lists, which every stage and formatter has to survive
	g3 := gen.NewFG(r, gen.FGOpts{People: r.Range(3, 10), MultiNames: true, WithSources: true})
	recs := g3.Specs()
	for k := r.Range(2, 4); k > 0; k-- {
		recs = c14Faults[r.Intn(len(c14Faults))].apply(r, recs)
	}
	faulty := gen.Text(recs)
	if _, err := gedcom.NewDocumentFromString(faulty); err != nil {
		faulty = g3.Text()
	}
	return c15Docs{
		texts: []string{"", "0 @I1@ INDI\n1 NAME John /Smith/\n1 BIRT\n2 DATE 3 Sep 1943\n", g.Text(), g2.Text(), faulty},
		names: []string{"empty", "tiny", "family-graph", "second", "with-structural-faults"},
	}
}

var c15Formats = []string{"json", "pretty-json", "csv", "gedcom", "html"}

func c15Formatter(name string, w *bytes.Buffer) q.Formatter {
	switch name {
	case "json":
		return &q.JSONFormatter{Writer: w}
	case "pretty-json":
		return &q.PrettyJSONFormatter{Writer: w}
	case "csv":
		return &q.CSVFormatter{Writer: w}
	case "gedcom":
		return &q.GEDCOMFormatter{Writer: w}
	}
	return &q.HTMLFormatter{Writer: w}
}

// c15Eval runs one query against freshly decoded documents. docSel: which
// documents to hand to the engine (indices into d.texts).
func c15Eval(c *fw.Ctx, qs string, d c15Docs, docSel []int, kind string) {
	c.Count("queries", 1)
	var engine *q.Engine
	var err error
	payload := map[string]interface{}{"query": qs, "documents": docSel, "kind": kind}
	for _, ix := range docSel {
		payload["gedcom"+fmt.Sprint(ix)] = d.texts[ix]
	}
	if pi := fw.Try(func() { engine, err = q.NewParser().ParseString(qs) }); pi != nil {
		c.Violation("parse:"+pi.Sig(), fmt.Sprintf("ParseString(%q) panicked: %s", qs, pi.Msg), payload)
		return
	}
	if err != nil {
		c.Count("syntax-errors", 1)
		return
	}
	if engine == nil {
		c.Violation("parse:nil-nil", fmt.Sprintf("ParseString(%q) returned neither an engine nor an error", qs), payload)
		return
	}
	c.Count("parsed", 1)
	var docs []*gedcom.Document
	for _, ix := range docSel {
		doc, derr := gedcom.NewDocumentFromString(d.texts[ix])
		if derr != nil {
			c.HarnessError("C15 document does not decode: " + derr.Error())
			return
		}
		docs = append(docs, doc)
	}
	var result interface{}
	if pi := fw.Try(func() { result, err = engine.Evaluate(docs) }); pi != nil {
		c.Violation("evaluate:"+pi.Sig(), fmt.Sprintf("Evaluate(%q) on %v documents panicked: %s", qs, docSel, pi.Msg), payload)
		return
	}
	if err != nil {
		c.Count("evaluation-errors", 1)
		return
	}
	c.Count("evaluated", 1)
	c.NontrivialStr(qs + fmt.Sprint(docSel))
	for _, f := range c15Formats {
		var buf bytes.Buffer
		var ferr error
		c.Count("formatter-writes", 1)
		if pi := fw.Try(func() { ferr = c15Formatter(f, &buf).Write(result) }); pi != nil {
			c.Violation("format-"+f+":"+pi.Sig(), fmt.Sprintf("formatter %s panicked on the result (%T) of %q: %s", f, result, qs, pi.Msg), payload)
			continue
		}
		if ferr != nil {
			c.Count("formatter-errors", 1)
		}
	}
	if c.WantSample(kind) {
		c.Sample(kind, map[string]interface{}{"query": qs, "result_type": fmt.Sprintf("%T", result)})
	}
}

func init() {
	fw.Register(&fw.Prop{
		ID:       "C15",
		CaseCPU:  60,
		Title:    "Queries never crash: parse and evaluate return a value or an error",
		NeedsCLI: true,
		Cases: func(tier string, seed uint64) int {
			return (c15SeqCount(c15MaxLen(tier))+c15Block-1)/c15Block + c15Gen(tier)
		},
		Run:   c15Run,
		Batch: func(tier string, n int) int { return 8 },
		Rule: "every query goes through ParseString -> Evaluate (1 and 2 freshly decoded documents: empty, one person, generated family graph, a family graph with 2-4 structural faults such as dangling spouse references and nameless people) -> all five formatters into a buffer, under recover() with panic classification; stack overflows and other process-fatal crashes and hangs are attributed by the supervisor through the case marker. " +
			"queries: (a) exhaustive token sequences up to length 3 (quick) / 4 (thorough) over a 27-token alphabet (incl. an unbalanced quote), (b) well-formed pipelines of depth <= 3 generated over all accessors found by reflection (methods with arguments included) and all built-in functions with 0..3 arguments, with defined/undefined/self-referential/mutually recursive variables (also referring to themselves inside the arguments of Only, First, Last, Combine and inside object fields), (c) token-mutated documented examples, (d) random bytes, (e) a sample through the real 'gedcom query' binary in every format. non-trivial = query parsed and evaluated to a value; distinct by query text + documents",
		Floors: func(a *fw.Agg, tier string) []string {
			var f []string
			for _, k := range []string{"queries", "syntax-errors", "parsed", "evaluation-errors", "evaluated", "formatter-writes", "formatter-errors", "cli-runs"} {
				if a.Counters[k] < 20 {
					f = append(f, fmt.Sprintf("%s=%d < 20", k, a.Counters[k]))
				}
			}
			return f
		},
		Assumptions: []string{"at least one document is always supplied (the CLI enforces it)", "a formatter error is a pass; only panics, runtime fatal errors and hangs are violations"},
	})
}

func c15Run(c *fw.Ctx, i int) {
	r := c.R
	nSeq := c15SeqCount(c15MaxLen(c.Tier))
	nBlocks := (nSeq + c15Block - 1) / c15Block
	d := c15MakeDocs(fw.NewRand(fw.Mix(c.Seed, 1515))) // the same documents for every exhaustive block
	if i < nBlocks {
		for idx := i * c15Block; idx < (i+1)*c15Block && idx < nSeq; idx++ {
			qs := strings.Join(c15Seq(idx), " ")
			for _, sel := range [][]int{{0}, {1}, {2, 3}, {4}} {
				c15Eval(c, qs, d, sel, "token-sequence")
			}
		}
		return
	}
	d = c15MakeDocs(r)
	for k := 0; k < 50; k++ {
		var qs, kind string
		switch k % 5 {
		case 0, 1, 2:
			qs, kind = c15Pipeline(r, 2), "generated"
		case 3:
			qs, kind = c15Mutate(r, c15Examples[r.Intn(len(c15Examples))]), "mutated-example"
			if r.Chance(1, 4) {
				qs = c15Examples[r.Intn(len(c15Examples))]
			}
		case 4:
			n := r.Intn(30)
			b := make([]byte, n)
			for x := range b {
				if r.Chance(1, 3) {
					b[x] = byte(r.Intn(256))
				} else {
					const chars = ".|;?(){}:,=!<>\"aZ09_ \t\n"
					b[x] = chars[r.Intn(len(chars))]
				}
			}
			qs, kind = string(b), "random-bytes"
		}
		sel := [][]int{{2}, {2, 3}, {0}, {1}, {0, 2}, {4}, {4}, {4, 2}}[r.Intn(8)]
		c15Eval(c, qs, d, sel, kind)
		if k == 7 {
			c15CLI(c, qs, d, sel)
		}
		if k == 8 && c.Case%4 == 0 {
			// what a shell hands over when the query is forgotten, empty, only
			// white space, or looks like an option or a file reference
			edge := []string{"", " ", "\t\n", "@", "@/nonexistent/query.txt", "-", "--", "-format", "\"", "\x00"}[(c.Case/4)%10]
			c15CLIArgs(c, edge, d, sel, true)
			if (c.Case/4)%10 == 0 {
				c15CLIArgs(c, "", d, sel, false) // no query argument at all
			}
		}
	}
}

// c15CLI runs the real binary and looks for a Go crash.
func c15CLI(c *fw.Ctx, qs string, d c15Docs, sel []int) {
	if strings.ContainsRune(qs, 0) {
		return
	}
	c15CLIArgs(c, qs, d, sel, true)
}

// c15CLIArgs: withQuery false leaves the query argument out altogether.
func c15CLIArgs(c *fw.Ctx, qs string, d c15Docs, sel []int, withQuery bool) {
	bin := os.Getenv("VERIF_GEDCOM_BIN")
	if bin == "" || strings.ContainsRune(qs, 0) {
		return
	}
	dir := os.Getenv("VERIF_SCRATCH")
	if dir == "" {
		dir = os.TempDir()
	}
	var args []string
	args = append(args, "query")
	var files []string
	for _, ix := range sel {
		p := filepath.Join(dir, fmt.Sprintf("c15-%d-%d-%d.ged", os.Getpid(), c.Case, ix))
		os.WriteFile(p, []byte(d.texts[ix]), 0o644)
		files = append(files, p)
		args = append(args, "-gedcom", p)
	}
	defer func() {
		for _, f := range files {
			os.Remove(f)
		}
	}()
	format := c15Formats[c.R.Intn(len(c15Formats))]
	args = append(args, "-format", format)
	if withQuery {
		args = append(args, qs)
	}
	outS, runErr, okRun := runCLI(c, "cli", map[string]interface{}{"args": args}, nil, 60, bin, args...)
	if !okRun {
		return
	}
	out := []byte(outS)
	c.Count("cli-runs", 1)
	s := string(out)
	if CrashedGo(s, runErr) {
		class, frame := "panic", fw.InnermostRepoFrame(s)
		if strings.Contains(s, "stack overflow") || strings.Contains(s, "goroutine stack exceeds") {
			class = "stack-overflow"
		}
		c.Violation("cli:"+class+"@"+frame, fmt.Sprintf("gedcom query -format %s %q crashed:\n%s", format, qs, clip(s, 1500)), map[string]interface{}{"query": qs, "format": format, "documents": sel})
	}
}

var crashLine = regexp.MustCompile(`(?m)^(panic: |fatal error: |runtime: goroutine stack exceeds)`)

// CrashedGo decides from the combined output and the exit error of a child
// process whether it ended in a Go panic / runtime fatal error / signal (as
// opposed to an orderly error message, which may itself quote a stack trace).
func CrashedGo(output string, err error) bool {
	if err == nil {
		return false
	}
	if ee, ok := err.(*exec.ExitError); ok {
		if ee.ExitCode() == -1 { // killed by a signal
			return true
		}
		if ee.ExitCode() == 2 && crashLine.MatchString(output) {
			return true
		}
		return false
	}
	return false
}
