package props

import (
	"fmt"
	"regexp"
	"strconv"
	"strings"
	"time"

	"github.com/elliotchance/gedcom/v39"

	"verif/fw"
	"verif/ref"
)

// C04 — every documented date form parses to its documented meaning.
// The generator writes sentences of the documented grammar and knows what it
// wrote; the oracle compares that with what the library parsed.

type c04Kw struct {
	word string
	cons gedcom.DateConstraint
}

// The documented spellings are written out here, NOT read from the library's
// DateWords* constants: a word that disappears from a constant must be missed.
const (
	c04WordsAbout   = "Abt.|abt|about|c.|ca|ca.|cca|cca.|circa"
	c04WordsAfter   = "Aft.|aft|after"
	c04WordsBefore  = "Bef.|bef|before"
	c04WordsBetween = "Bet.|bet|between|from"
	c04WordsAnd     = "and|to|-"
)

func c04Keywords() []c04Kw {
	var k []c04Kw
	for _, w := range strings.Split(c04WordsAbout, "|") {
		k = append(k, c04Kw{w, gedcom.DateConstraintAbout})
	}
	for _, w := range strings.Split(c04WordsAfter, "|") {
		k = append(k, c04Kw{w, gedcom.DateConstraintAfter})
	}
	for _, w := range strings.Split(c04WordsBefore, "|") {
		k = append(k, c04Kw{w, gedcom.DateConstraintBefore})
	}
	k = append(k, c04Kw{"", gedcom.DateConstraintExact})
	return k
}

var c04MonthSpellings = []struct {
	s string
	m int
}{
	{"jan", 1}, {"january", 1}, {"feb", 2}, {"february", 2}, {"mar", 3}, {"march", 3}, {"apr", 4}, {"april", 4},
	{"may", 5}, {"jun", 6}, {"june", 6}, {"jul", 7}, {"july", 7}, {"aug", 8}, {"august", 8}, {"sep", 9}, {"september", 9},
	{"oct", 10}, {"october", 10}, {"nov", 11}, {"november", 11}, {"dec", 12}, {"december", 12},
}

var c04Years = []int{1, 9, 10, 31, 32, 99, 100, 999, 1000, 1582, 1600, 1900, 2000, 2023, 2024, 9999}

func c04Case(s string, variant int, r *fw.Rand) string {
	switch variant % 4 {
	case 0:
		return strings.ToLower(s)
	case 1:
		return strings.ToUpper(s)
	case 2:
		if s == "" {
			return s
		}
		return strings.ToUpper(s[:1]) + strings.ToLower(s[1:])
	}
	b := []byte(strings.ToLower(s))
	for i := range b {
		if r.Bool() && b[i] >= 'a' && b[i] <= 'z' {
			b[i] -= 32
		}
	}
	return string(b)
}

type c04Date struct {
	d, m, y int
	cons    gedcom.DateConstraint
	text    string
	kw      string
	shape   string
}

// c04Sentence renders one date; spaces may be doubled.
func c04Sentence(kw c04Kw, kwVariant int, shape string, monthIdx, monthVariant, d, y int, leadingZero bool, r *fw.Rand) c04Date {
	sp := func() string {
		switch r.Intn(6) {
		case 0:
			return "  "
		case 1:
			return "   "
		}
		return " "
	}
	var parts []string
	if kw.word != "" {
		parts = append(parts, c04Case(kw.word, kwVariant, r))
	}
	out := c04Date{y: y, cons: kw.cons, kw: kw.word, shape: shape}
	if shape == "DMY" {
		out.d = d
		if leadingZero && d < 10 {
			parts = append(parts, fmt.Sprintf("0%d", d))
		} else {
			parts = append(parts, fmt.Sprintf("%d", d))
		}
	}
	if shape == "DMY" || shape == "MY" {
		ms := c04MonthSpellings[monthIdx]
		out.m = ms.m
		parts = append(parts, c04Case(ms.s, monthVariant, r))
	}
	parts = append(parts, fmt.Sprintf("%d", y))
	var sb strings.Builder
	for i, p := range parts {
		if i > 0 {
			sb.WriteString(sp())
		}
		sb.WriteString(p)
	}
	out.text = sb.String()
	return out
}

func c04ConsName(c gedcom.DateConstraint) string {
	switch c {
	case gedcom.DateConstraintAbout:
		return "about"
	case gedcom.DateConstraintBefore:
		return "before"
	case gedcom.DateConstraintAfter:
		return "after"
	}
	return "exact"
}

var c04CanonSingle = `(?:(?:Abt\.|Bef\.|Aft\.) )?(?:[1-9]\d? )?(?:(?:Jan|Feb|Mar|Apr|May|Jun|Jul|Aug|Sep|Oct|Nov|Dec) )?[1-9]\d{0,3}`
var c04CanonRe = regexp.MustCompile(`^(?:` + c04CanonSingle + `|Bet\. ` + c04CanonSingle + ` and ` + c04CanonSingle + `)$`)

func c04CmpDate(c *fw.Ctx, which string, got gedcom.Date, want c04Date, text string, wantEnd bool, sigTail string) bool {
	ok := true
	say := func(field string, g, w interface{}) {
		ok = false
		c.Violation(field+"-wrong:"+sigTail, fmt.Sprintf("%q: %s %s = %v, written %v (parsed %+v)", text, which, field, g, w, got), map[string]string{"text": text})
	}
	if got.Day != want.d {
		say("day", got.Day, want.d)
	}
	if int(got.Month) != want.m {
		say("month", int(got.Month), want.m)
	}
	if got.Year != want.y {
		say("year", got.Year, want.y)
	}
	if got.Constraint != want.cons {
		say("constraint", c04ConsName(got.Constraint), c04ConsName(want.cons))
	}
	if got.IsEndOfRange != wantEnd {
		say("range-end-flag", got.IsEndOfRange, wantEnd)
	}
	return ok
}

// c04Check: text encodes start..end (end==start for a single date).
func c04Check(c *fw.Ctx, text string, start, end c04Date, kind string) {
	c.Count("sentences", 1)
	c.NontrivialStr(text)
	sigS := kind + ":" + strings.ToLower(start.kw) + ":" + start.shape
	sigE := kind + ":" + strings.ToLower(end.kw) + ":" + end.shape
	dr := gedcom.NewDateRangeWithString(text)
	if !dr.IsValid() {
		c.Violation("valid-rejected:"+sigS, fmt.Sprintf("%q is a sentence of the documented grammar but IsValid()=false (start %+v end %+v)", text, dr.StartDate(), dr.EndDate()), map[string]string{"text": text})
		return
	}
	if err := dr.ParseError(); err != nil {
		c.Violation("valid-parse-error:"+sigS, fmt.Sprintf("%q: ParseError()=%v", text, err), map[string]string{"text": text})
	}
	ok := c04CmpDate(c, "start", dr.StartDate(), start, text, false, sigS)
	ok = c04CmpDate(c, "end", dr.EndDate(), end, text, true, sigE) && ok
	// the same through a DATE node
	node := gedcom.NewDateNode(text)
	if !node.IsValid() {
		c.Violation("valid-rejected-by-node:"+sigS, fmt.Sprintf("DateNode(%q).IsValid()=false", text), map[string]string{"text": text})
		return
	}
	ns, ne := node.StartAndEndDates()
	if !ns.Is(dr.StartDate()) || !ne.Is(dr.EndDate()) {
		c.Violation("node-differs-from-range:"+sigS, fmt.Sprintf("DateNode(%q) dates %v..%v differ from NewDateRangeWithString %v..%v", text, ns, ne, dr.StartDate(), dr.EndDate()), map[string]string{"text": text})
	}
	if !ok {
		return
	}
	// canonical print and re-parse
	for _, pr := range []struct{ name, s string }{{"DateRange.String", dr.String()}, {"DateNode.String", node.String()}} {
		c.Count("print-roundtrips", 1)
		sig := "print-roundtrip:" + kind + ":" + c04ConsName(start.cons) + "/" + c04ConsName(end.cons)
		if !c04CanonRe.MatchString(pr.s) {
			c.Violation("print-not-canonical:"+kind+":"+c04ConsName(start.cons)+"/"+c04ConsName(end.cons), fmt.Sprintf("%q: %s() = %q is not the canonical spelling", text, pr.name, pr.s), map[string]string{"text": text})
			continue
		}
		back := gedcom.NewDateRangeWithString(pr.s)
		if !back.IsValid() || !back.StartDate().Is(dr.StartDate()) || !back.EndDate().Is(dr.EndDate()) {
			c.Violation(sig, fmt.Sprintf("%q: %s() = %q which parses to %v .. %v, not %v .. %v", text, pr.name, pr.s, back.StartDate(), back.EndDate(), dr.StartDate(), dr.EndDate()), map[string]string{"text": text, "printed": pr.s})
		}
	}
	c.Class("cell", sigS)
}

func c04Days(y, m int, thorough bool, r *fw.Rand) []int {
	dim := ref.DaysInMonth(y, m)
	ds := []int{1, dim}
	extra := 1
	if thorough {
		extra = 6
	}
	for i := 0; i < extra; i++ {
		ds = append(ds, []int{9, 10, 28, 29, 30, 31, r.Range(1, 31)}[r.Intn(7)])
	}
	var o []int
	for _, d := range ds {
		if d <= dim {
			o = append(o, d)
		}
	}
	return o
}

// ---- case list ----
// [0, K*4): single dates, one case per (keyword, case variant)
// then 36 range cases, then near-miss cases.

var c04Between = strings.Split(c04WordsBetween, "|")
var c04And = strings.Split(c04WordsAnd, "|")

const c04NearCases = 8

func c04NumSingle() int { return len(c04Keywords()) * 4 }
func c04NumRange() int  { return len(c04Between) * len(c04And) * 3 }

func init() {
	fw.Register(&fw.Prop{
		ID:    "C04",
		Title: "Every documented date form parses to its documented meaning",
		Cases: func(tier string, seed uint64) int { return c04NumSingle() + c04NumRange() + c04NearCases },
		Run:   c04Run,
		Batch: func(tier string, n int) int { return 2 },
		Rule: "generator of the documented DATE grammar that knows the day/month/year/constraint it wrote: exhaustive product of 16 keyword spellings (incl. none) x 4 letter-case variants x 3 shapes x 23 month spellings with sampled numeric fields, optional doubled spaces and one leading zero on days; " +
			"ranges over 4 between-words x 3 and-words x case with sampled constrained ends; enumerated near misses that must be invalid. Checked through NewDateRangeWithString and DateNode, then canonical print -> re-parse. distinct = distinct sentence text",
		Floors: func(a *fw.Agg, tier string) []string {
			var f []string
			// every keyword x shape cell evaluated for singles
			for _, k := range c04Keywords() {
				for _, sh := range []string{"DMY", "MY", "Y"} {
					if a.Class("cell", "single:"+strings.ToLower(k.word)+":"+sh) == 0 {
						f = append(f, "cell not evaluated successfully: keyword '"+k.word+"' shape "+sh)
					}
				}
			}
			if a.Counters["near-misses"] < 500 {
				f = append(f, "fewer than 500 near misses evaluated")
			}
			return f
		},
		Assumptions: []string{
			"documented grammar = the keyword spellings listed in the property (written out in the harness, not read from the DateWords* constants), the month table and the forms listed on Date/DateNode; years 1..9999 without leading zeros; at most one leading zero on days; 1-3 spaces between words",
			"nothing is demanded for undocumented forms other than the enumerated near misses",
		},
	})
}

func c04Run(c *fw.Ctx, i int) {
	kws := c04Keywords()
	r := c.R
	reps := 12
	if c.Thorough() {
		reps = 400
	}
	if i < c04NumSingle() {
		kw := kws[i/4]
		variant := i % 4
		// first of all, sentences nobody has parsed yet are parsed by 8
		// goroutines at once (the same DATE node objects in all of them): every
		// answer must be what a lone caller gets from a fresh node
		{
			pr := fw.NewRand(fw.Mix(c.Seed, uint64(i), 404))
			var texts []string
			var nodes []*gedcom.DateNode
			for k := 0; k < 120; k++ {
				y := pr.Range(1, 9999)
				mi := pr.Intn(len(c04MonthSpellings))
				days := c04Days(y, c04MonthSpellings[mi].m, false, pr)
				d := c04Sentence(kw, variant, []string{"Y", "MY", "DMY"}[k%3], mi, pr.Intn(4), days[pr.Intn(len(days))], y, pr.Bool(), pr)
				texts = append(texts, d.text)
				nodes = append(nodes, gedcom.NewDateNode(d.text))
			}
			desc := func(n *gedcom.DateNode, text string) string {
				dr := gedcom.NewDateRangeWithString(text)
				s, e := n.StartAndEndDates()
				return fmt.Sprintf("range valid=%v %+v .. %+v | node valid=%v %+v .. %+v %q years=%v", dr.IsValid(), dr.StartDate(), dr.EndDate(), n.IsValid(), s, e, n.String(), n.Years())
			}
			c.Count("parallel-evaluations", int64(8*len(texts)))
			if k, par, alone := fw.ParallelThenAlone(8, len(texts), func(k int) string { return desc(nodes[k], texts[k]) }, func(k int) string { return desc(gedcom.NewDateNode(texts[k]), texts[k]) }); k >= 0 {
				c.Violation("parallel-evaluation-differs", fmt.Sprintf("%q parsed while 7 other goroutines parse too:\n%s\nalone:\n%s", texts[k], par, alone), map[string]string{"text": texts[k]})
			}
		}
		for rep := 0; rep < reps; rep++ {
			// shape Y
			for _, y := range append(append([]int{}, c04Years...), r.Range(1, 9999), r.Range(1, 9999)) {
				d := c04Sentence(kw, variant, "Y", 0, 0, 0, y, false, r)
				c04Check(c, d.text, d, d, "single")
			}
			for mi := range c04MonthSpellings {
				for k := 0; k < 3; k++ {
					y := c04Years[r.Intn(len(c04Years))]
					if k == 2 {
						y = r.Range(1, 9999)
					}
					d := c04Sentence(kw, variant, "MY", mi, r.Intn(4), 0, y, false, r)
					c04Check(c, d.text, d, d, "single")
					for _, day := range c04Days(y, c04MonthSpellings[mi].m, c.Thorough(), r) {
						d := c04Sentence(kw, variant, "DMY", mi, r.Intn(4), day, y, r.Bool(), r)
						c04Check(c, d.text, d, d, "single")
						if c.WantSample("single") {
							c.Sample("single", map[string]interface{}{"text": d.text, "written": fmt.Sprintf("%s d=%d m=%d y=%d", c04ConsName(d.cons), d.d, d.m, d.y)})
						}
					}
				}
			}
		}
		return
	}
	i -= c04NumSingle()
	if i < c04NumRange() {
		bw := c04Between[(i/3)/len(c04And)]
		aw := c04And[(i/3)%len(c04And)]
		variant := i % 3
		n := 150 * reps
		for k := 0; k < n; k++ {
			mk := func() c04Date {
				kw := kws[r.Intn(len(kws))]
				if k%3 == 0 {
					kw = kws[len(kws)-1]
				}
				sh := []string{"DMY", "MY", "Y"}[r.Intn(3)]
				mi := r.Intn(len(c04MonthSpellings))
				y := c04Years[r.Intn(len(c04Years))]
				if r.Bool() {
					y = r.Range(1, 9999)
				}
				day := r.Range(1, ref.DaysInMonth(y, c04MonthSpellings[mi].m))
				return c04Sentence(kw, r.Intn(4), sh, mi, r.Intn(4), day, y, r.Bool(), r)
			}
			a, b := mk(), mk()
			// 1-3 spaces at every word boundary of the range as well
			gap := func() string {
				switch r.Intn(6) {
				case 0:
					return "  "
				case 1:
					return "   "
				}
				return " "
			}
			text := c04Case(bw, variant, r) + gap() + a.text + gap() + c04Case(aw, variant, r) + gap() + b.text
			c04Check(c, text, a, b, "range")
			if c.WantSample("range") {
				c.Sample("range", map[string]interface{}{"text": text, "start": fmt.Sprintf("%s d=%d m=%d y=%d", c04ConsName(a.cons), a.d, a.m, a.y), "end": fmt.Sprintf("%s d=%d m=%d y=%d", c04ConsName(b.cons), b.d, b.m, b.y)})
			}
		}
		return
	}
	i -= c04NumRange()
	c04Near(c, i)
}

type c04Miss struct{ text, reason string }

func c04NearList(r *fw.Rand, thorough bool) []c04Miss {
	var o []c04Miss
	add := func(reason, format string, args ...interface{}) {
		o = append(o, c04Miss{fmt.Sprintf(format, args...), reason})
	}
	kws := []string{"", "abt ", "Abt. ", "bef ", "AFT ", "circa ", "c. "}
	unknownMonths := []string{"Foo", "Sept", "Janu", "J", "Mai", "Okt", "Dez", "Ja", "Marc", "Junee", "xyz", "month", "und"}
	years := []int{1, 99, 1582, 1900, 1901, 2000, 2023, 2100, 9999}
	for _, kw := range kws {
		for _, um := range unknownMonths {
			for _, y := range years[:4] {
				add("unknown-month-word", "%s%s %d", kw, um, y)
				add("unknown-month-word", "%s%d %s %d", kw, r.Range(1, 28), um, y)
			}
		}
		for _, y := range years {
			for m := 1; m <= 12; m++ {
				mn := c06Mon[m]
				add("day-0", "%s0 %s %d", kw, mn, y)
				add("day-0", "%s00 %s %d", kw, mn, y)
				add("day-32", "%s32 %s %d", kw, mn, y)
				add("day-beyond-month", "%s%d %s %d", kw, ref.DaysInMonth(y, m)+1, mn, y)
				add("day-huge", "%s%d %s %d", kw, r.Range(33, 999), mn, y)
			}
		}
		for _, y := range []int{1900, 2100, 1999, 2023, 1, 1700, 2200, 9999} {
			add("29-feb-non-leap", "%s29 Feb %d", kw, y)
			add("29-feb-non-leap", "%s29 february %d", kw, y)
		}
		add("missing-year", "%s3 Sep", kw)
		add("missing-year", "%sSep", kw)
		add("day-without-month", "%s12 1900", kw)
		add("trailing-text", "%s3 Sep 1943 approx", kw)
		add("trailing-text", "%s1943 x", kw)
		add("trailing-text", "%sSep 1943 ?", kw)
		add("numeric-month", "%s3 9 1943", kw)
		add("numeric-month", "%s3/9/1943", kw)
		add("numeric-month", "%s1943-09-03", kw)
		if strings.TrimSpace(kw) != "" {
			add("keyword-without-date", "%s", strings.TrimSpace(kw))
			add("two-keywords", "%sabt 1900", kw)
			add("two-keywords", "%sbef 3 Sep 1900", kw)
			add("keyword-after-date", "1900 %s", strings.TrimSpace(kw))
		}
	}
	for _, bw := range []string{"Bet.", "bet", "between", "from"} {
		add("range-without-second-date", "%s 1900", bw)
		add("range-without-second-date", "%s 1900 and", bw)
		add("range-with-unknown-month", "%s Foo 1900 and 1910", bw)
		add("range-with-unknown-month", "%s 1900 and 3 Foo 1910", bw)
		add("range-with-impossible-day", "%s 31 Apr 1900 and 1910", bw)
		add("range-with-impossible-day", "%s 1900 and 30 Feb 1910", bw)
		add("range-with-impossible-day", "%s 1900 to 29 Feb 1901", bw)
	}
	add("range-without-between-word", "1900 and 1910")
	add("range-without-between-word", "3 Sep 1900 to 5 Sep 1900")
	add("empty", "")
	add("garbage", "unknown")
	add("garbage", "?")
	add("garbage", "abt")
	return o
}

var c04NearYM = regexp.MustCompile(`(?i)\b([a-z]{3}) (\d{1,4})$`)

func c04Near(c *fw.Ctx, k int) {
	// the list is deterministic per seed: use a fixed sub-stream, not the case stream
	list := c04NearList(fw.NewRand(fw.Mix(c.Seed, 404)), c.Thorough())
	for j, ms := range list {
		if j%c04NearCases != k {
			continue
		}
		c.Count("near-misses", 1)
		c.Class("near-miss", ms.reason)
		c.NontrivialStr("near:" + ms.text)
		// the real days around it are parsed in the same process, before the
		// near miss for every second one and after it for the others: what was
		// parsed earlier must not decide what is valid now
		neighbours := func(when string) {
			m := c04NearYM.FindStringSubmatch(ms.text)
			if m == nil {
				return
			}
			mon := 0
			for q := 1; q <= 12; q++ {
				if strings.EqualFold(c06Mon[q], m[1]) {
					mon = q
				}
			}
			y, _ := strconv.Atoi(m[2])
			if mon == 0 || y < 1 || y > 9999 {
				return
			}
			type dmy struct{ d, m, y int }
			prevM, prevY, nextM, nextY := mon-1, y, mon+1, y
			if prevM == 0 {
				prevM, prevY = 12, y-1
			}
			if nextM == 13 {
				nextM, nextY = 1, y+1
			}
			for _, n := range []dmy{{1, mon, y}, {ref.DaysInMonth(y, mon), mon, y}, {1, nextM, nextY}, {2, nextM, nextY}, {ref.DaysInMonth(prevY, prevM), prevM, prevY}, {31, 12, y - 1}, {1, 1, y + 1}} {
				if n.y < 1 || n.y > 9999 {
					continue
				}
				text := fmt.Sprintf("%d %s %d", n.d, c06Mon[n.m], n.y)
				dr := gedcom.NewDateRangeWithString(text)
				c.Count("valid-neighbours-of-near-misses", 1)
				if s := dr.StartDate(); !dr.IsValid() || s.Day != n.d || int(s.Month) != n.m || s.Year != n.y {
					c.Violation("valid-neighbour-of-near-miss-wrong:"+ms.reason+":"+when, fmt.Sprintf("%q parsed %s the near miss %q in the same process: valid=%v start %+v", text, when, ms.text, dr.IsValid(), s), map[string]string{"text": text, "near_miss": ms.text, "order": when})
				}
			}
		}
		if j%2 == 0 {
			neighbours("before")
		}
		dr := gedcom.NewDateRangeWithString(ms.text)
		node := gedcom.NewDateNode(ms.text)
		if dr.IsValid() || node.IsValid() {
			c.Violation("near-miss-accepted:"+ms.reason, fmt.Sprintf("%q (%s) must be invalid but parsed as %v .. %v (IsValid range=%v node=%v)", ms.text, ms.reason, dr.StartDate(), dr.EndDate(), dr.IsValid(), node.IsValid()), map[string]string{"text": ms.text})
		}
		if j%2 == 1 {
			neighbours("after")
		}
		if c.WantSample("near-miss") {
			c.Sample("near-miss", map[string]string{"text": ms.text, "must be invalid because": ms.reason})
		}
	}
	_ = time.January
}
