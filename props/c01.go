package props

import (
	"fmt"
	"strings"

	"github.com/elliotchance/gedcom/v39"

	"verif/fw"
	"verif/gen"
)

// C01 — encode then decode returns the same document.

// ordered forest shapes with n nodes, as parent vectors in pre-order
// (parent[i] < i, -1 = root), generated so that pre-order is consistent.
func c01Shapes(n int) [][]int {
	var out [][]int
	var rec func(par []int, stack []int)
	rec = func(par []int, stack []int) {
		if len(par) == n {
			out = append(out, append([]int{}, par...))
			return
		}
		i := len(par)
		// new node may be a child of any node on the current rightmost path, or a root
		for k := len(stack); k >= 0; k-- {
			p := -1
			if k > 0 {
				p = stack[k-1]
			}
			ns := append(append([]int{}, stack[:k]...), i)
			rec(append(par, p), ns)
		}
	}
	rec(nil, nil)
	return out
}

func c01AllShapes(maxN int) [][]int {
	var all [][]int
	for n := 1; n <= maxN; n++ {
		all = append(all, c01Shapes(n)...)
	}
	return all
}

const c01Labels = 8

// label -> spec, depending on position (root or nested)
func c01Label(l int, root bool) *gen.Spec {
	switch l {
	case 0:
		if root {
			return &gen.Spec{Tag: "INDI", Pointer: "I1"}
		}
		return &gen.Spec{Tag: "NOTE"}
	case 1:
		return &gen.Spec{Tag: "NOTE", Value: "@I1@"}
	case 2:
		return &gen.Spec{Tag: "NOTE", Value: "1 NOTE x"}
	case 3:
		return &gen.Spec{Tag: "DATE", Value: "1 Jan 1900"}
	case 4:
		return &gen.Spec{Tag: "_X", Value: "v"}
	case 5:
		return &gen.Spec{Tag: "1A", Pointer: "P1"}
	case 6:
		return &gen.Spec{Tag: "NAME", Value: "a /b/", Pointer: "N1"}
	}
	if root {
		return &gen.Spec{Tag: "FAM", Pointer: "F1"}
	}
	return &gen.Spec{Tag: "CHIL", Value: "@I1@"}
}

func c01Forest(shape []int, labels []int) []*gen.Spec {
	nodes := make([]*gen.Spec, len(shape))
	var roots []*gen.Spec
	for i, p := range shape {
		nodes[i] = c01Label(labels[i], p < 0)
		if p < 0 {
			roots = append(roots, nodes[i])
		} else {
			nodes[p].Kids = append(nodes[p].Kids, nodes[i])
		}
	}
	return roots
}

func c01MaxN(tier string) int {
	if tier == "thorough" {
		return 5
	}
	return 4
}

func c01Random(tier string) int {
	if tier == "thorough" {
		return 50000
	}
	return 10000
}

func init() {
	fw.Register(&fw.Prop{
		ID:    "C01",
		Title: "Encode then decode returns the same document",
		Cases: func(tier string, seed uint64) int {
			return len(c01AllShapes(c01MaxN(tier)))*c01Labels + c01Random(tier)
		},
		Run:   c01Run,
		Batch: func(tier string, n int) int { return 16 },
		Rule: "documents built only through the public API (NewNode, AddNode, Document.AddIndividual/AddFamily, FamilyNode.SetHusbandPointer/SetWifePointer/AddChild, role nodes moved with DeleteNode+AddNode) and compared with NewDocumentFromString(doc.String()) by simultaneous walk (tag, value, pointer, Go type, child count/order, HasBOM). " +
			"(a) exhaustive: every ordered forest shape with <= 4 (quick) / <= 5 (thorough) nodes x 8 labels per node x BOM on/off; (b) random forests over every registered tag, custom/numeric tags, all value classes, duplicate siblings, chains of every depth 0..99; every 40th random document has 255..4097 root records (sizes on both sides of powers of two and round numbers). non-trivial = has a nested node; distinct by hash of the encoded text",
		Exhaustive: func(tier string) bool { return false },
		Floors: func(a *fw.Agg, tier string) []string {
			var f []string
			if n := a.ClassCount("depth"); n < 100 {
				f = append(f, fmt.Sprintf("only %d of 100 depth values (0..99) exercised", n))
			}
			tags := gen.AllTags()
			miss := 0
			for _, t := range tags {
				if a.Class("tag", t) == 0 {
					miss++
				}
			}
			if miss > 0 {
				f = append(f, fmt.Sprintf("%d registered tags never appeared in a built document", miss))
			}
			if a.ClassCount("root-records") < 10 {
				f = append(f, fmt.Sprintf("only %d sizes of documents with hundreds of root records", a.ClassCount("root-records")))
			}
			if a.ClassCount("kind") < 25 {
				f = append(f, fmt.Sprintf("only %d specialised node kinds seen", a.ClassCount("kind")))
			}
			return f
		},
		Assumptions: []string{
			"the document as built through the API is the ground truth; what the API cannot build as asked (nested INDI/FAM, role nodes with pointers) is replaced by a custom tag and counted",
			"legal alphabet only: tags [A-Za-z0-9_]+, values without line breaks/edge whitespace, pointers without '@'",
		},
	})
}

func c01Check(c *fw.Ctx, specs []*gen.Spec, bom bool, what string) {
	doc, b := gen.Build(specs, bom)
	c.Count("substituted-specs", int64(b.Substituted))
	text := doc.String()
	// The same document object is written again straight away after its BOM
	// flag was switched (no node is added or removed and nothing is decoded in
	// between): the text must follow the flag. t3 is decoded further down.
	t3, toggled := "", what == "random" || c.R.Chance(1, 16)
	if toggled {
		doc.HasBOM = !bom
		t3 = doc.String()
		doc.HasBOM = bom
	}
	nested := false
	for _, n := range doc.Nodes() {
		if len(n.Nodes()) > 0 {
			nested = true
		}
	}
	if nested {
		c.NontrivialStr(text)
	}
	c.Count("roundtrips", 1)
	payload := map[string]interface{}{"text": text, "bom": bom, "what": what}
	shape := func() string {
		maxd := 0
		for _, s := range specs {
			if d := s.Depth(); d > maxd {
				maxd = d
			}
		}
		if maxd >= 10 {
			return "level>=10"
		}
		if strings.Contains(text, " HUSB") || strings.Contains(text, " WIFE") || strings.Contains(text, " CHIL") {
			return "with-role-node"
		}
		return "plain"
	}
	var dec *gedcom.Document
	var err error
	if pi := fw.Try(func() { dec, err = gedcom.NewDocumentFromString(text) }); pi != nil {
		c.Violation("encoder-output-crashes-decoder:"+shape()+":"+pi.Class, fmt.Sprintf("decoding the encoder's own output panicked: %s\n%s", pi.Msg, text), payload)
		return
	}
	if err != nil {
		c.Violation("encoder-output-rejected:"+shape(), fmt.Sprintf("decoder rejected the encoder's output: %v\n%s", err, clip(text, 600)), payload)
		return
	}
	if dec.HasBOM != bom {
		c.Violation("bom-flag:"+shape(), fmt.Sprintf("HasBOM %v -> %v", bom, dec.HasBOM), payload)
	}
	if f, m := gen.Diff(doc.Nodes(), dec.Nodes(), ""); f != "" {
		c.Violation(f+":"+shape(), "built vs decoded: "+m+"\n"+clip(text, 600), payload)
		return
	}
	// the decoded document must print the same text again
	if t2 := dec.String(); t2 != text {
		c.Violation("re-encode-differs:"+shape(), fmt.Sprintf("decode(encode(doc)).String() differs from doc.String()\n%s\n---\n%s", clip(text, 300), clip(t2, 300)), payload)
	}
	if toggled {
		c.Count("rewritten-after-bom-toggle", 1)
		hasBOM := strings.HasPrefix(t3, "\xef\xbb\xbf")
		if hasBOM != !bom {
			c.Violation("bom-flag-after-toggle:"+shape(), fmt.Sprintf("HasBOM was set to %v on a document that had just been written; the text written next starts with a BOM: %v", !bom, hasBOM), payload)
		} else if d3, err := gedcom.NewDocumentFromString(t3); err != nil || d3.HasBOM != !bom {
			c.Violation("bom-flag-after-toggle:"+shape(), fmt.Sprintf("after switching HasBOM to %v the written text decodes with err=%v", !bom, err), payload)
		} else if strings.TrimPrefix(t3, "\xef\xbb\xbf") != strings.TrimPrefix(text, "\xef\xbb\xbf") {
			c.Violation("text-changed-by-bom-toggle:"+shape(), "switching HasBOM changed more than the BOM", payload)
		}
	}
	if c.WantSample(what) {
		c.Sample(what, map[string]interface{}{"text": clip(text, 400), "bom": bom})
	}
}

func clip(s string, n int) string {
	if len(s) > n {
		return s[:n] + "…"
	}
	return s
}

func c01Stats(c *fw.Ctx, specs []*gen.Spec) {
	var walk func(s *gen.Spec)
	walk = func(s *gen.Spec) {
		c.Class("tag", s.Tag)
		for _, k := range s.Kids {
			walk(k)
		}
	}
	for _, s := range specs {
		walk(s)
	}
}

func c01Run(c *fw.Ctx, i int) {
	shapes := c01AllShapes(c01MaxN(c.Tier))
	if i < len(shapes)*c01Labels {
		shape := shapes[i/c01Labels]
		first := i % c01Labels
		n := len(shape)
		labels := make([]int, n)
		labels[0] = first
		total := 1
		for k := 1; k < n; k++ {
			total *= c01Labels
		}
		for x := 0; x < total; x++ {
			v := x
			for k := 1; k < n; k++ {
				labels[k] = v % c01Labels
				v /= c01Labels
			}
			for _, bom := range []bool{false, true} {
				c01Check(c, c01Forest(shape, labels), bom, "exhaustive")
			}
		}
		return
	}
	k := i - len(shapes)*c01Labels
	tags := gen.AllTags()
	o := gen.ForestOpts{MaxRoots: 5, MaxKids: 5, MaxDepth: 6, MaxNodes: 80, ForceTag: tags[k%len(tags)], ChainDeep: k % 100}
	if k%7 == 0 {
		o.MaxKids = 40
		o.MaxDepth = 2
		o.MaxNodes = 200
	}
	specs := gen.RandomForest(c.R, o)
	if k%40 == 5 {
		// documents with hundreds or thousands of root records (a real file has
		// tens of thousands): sizes on both sides of the powers of two and of
		// other round numbers, so that work done in blocks has a remainder
		sizes := []int{255, 256, 257, 300, 383, 384, 385, 511, 512, 513, 600, 767, 769, 1000, 1023, 1024, 1025, 1283, 2047, 2049, 3001, 4097}
		want := sizes[(k/40)%len(sizes)]
		small := gen.ForestOpts{MaxRoots: 3, MaxKids: 2, MaxDepth: 2, MaxNodes: 6}
		for len(specs) < want {
			specs = append(specs, gen.RandomForest(c.R, small)...)
		}
		specs = specs[:want]
		// the last records are told apart from every other one
		specs[want-1] = &gen.Spec{Tag: "TRLR"}
		specs[want-2] = &gen.Spec{Tag: "NOTE", Value: fmt.Sprintf("record %d of %d", want-1, want), Pointer: fmt.Sprintf("N%d", want)}
		c.Count("documents-with-hundreds-of-root-records", 1)
		c.Class("root-records", fmt.Sprint(want))
	}
	c01Stats(c, specs)
	maxd := 0
	for _, s := range specs {
		if d := s.Depth(); d > maxd {
			maxd = d
		}
	}
	c.Class("depth", fmt.Sprint(k%100))
	doc, _ := gen.Build(specs, false)
	var kinds func(ns gedcom.Nodes)
	kinds = func(ns gedcom.Nodes) {
		for _, n := range ns {
			c.Class("kind", fmt.Sprintf("%T", n))
			kinds(n.Nodes())
		}
	}
	kinds(doc.Nodes())
	c01Check(c, specs, c.R.Bool(), "random")
	// several different documents written and read back by 8 goroutines at
	// once (buffers, pools and tables shared between calls): every text and
	// every tree must be what a lone caller gets
	if k%10 == 0 {
		var forests [][]*gen.Spec
		var docs []*gedcom.Document
		for q := 0; q < 12; q++ {
			o2 := o
			o2.ForceTag, o2.ChainDeep = tags[(k+q*37)%len(tags)], (k+q*13)%100
			f := gen.RandomForest(c.R, o2)
			forests = append(forests, f)
			d, _ := gen.Build(f, q%2 == 0)
			docs = append(docs, d)
		}
		trip := func(d *gedcom.Document) string {
			text := d.String()
			dec, err := gedcom.NewDocumentFromString(text)
			if err != nil {
				return text + "\n=> " + err.Error()
			}
			return text + "\n=> " + dec.String()
		}
		c.Count("parallel-evaluations", int64(8*len(docs)))
		if q, par, alone := fw.ParallelThenAlone(8, len(docs), func(q int) string { return trip(docs[q]) }, func(q int) string {
			d, _ := gen.Build(forests[q], q%2 == 0)
			return trip(d)
		}); q >= 0 {
			c.Violation("parallel-evaluation-differs", fmt.Sprintf("a document written and read back while 7 other goroutines write and read other documents:\n%s\nalone:\n%s", clip(par, 500), clip(alone, 500)), map[string]interface{}{"text": alone})
		}
	}
}
