package props

import (
	"bytes"
	"fmt"
	"os"
	"os/exec"
	"path/filepath"
	"sort"
	"strings"

	"github.com/elliotchance/gedcom/v39"
	"github.com/elliotchance/gedcom/v39/q"

	"verif/fw"
	"verif/gen"
)

// C10 — merging documents accounts for every person and keeps links valid.
// Oracle: tracer tokens. Every input record carries a unique similarity-neutral
// tracer (1 _TRC L017) and every fact a unique marker; what the output
// records stem from is read off the tracers they carry.

type c10Side struct {
	g    *gen.FG
	text string
	// tracer -> fact markers
	facts map[string][]string
	// references: record tracer, line tag, target tracer
	refs []c10Ref
	// pointer -> tracer
	ptr map[string]string
}

type c10Ref struct {
	from, tag, to string
	ptr           string // the pointer value written in the input
}

func c10Trace(g *gen.FG, side string, r *fw.Rand) *c10Side {
	s := &c10Side{g: g, facts: map[string][]string{}, ptr: map[string]string{}}
	for i, p := range g.People {
		p.Tracer = fmt.Sprintf("%s%03d", side, i)
		s.ptr[p.Ptr] = p.Tracer
		n := r.Range(0, 3)
		for k := 0; k < n; k++ {
			m := fmt.Sprintf("fact-%s-%d", p.Tracer, k)
			s.facts[p.Tracer] = append(s.facts[p.Tracer], m)
			switch r.Intn(3) {
			case 0:
				p.Extra = append(p.Extra, &gen.Spec{Tag: "NOTE", Value: m})
			case 1:
				p.Extra = append(p.Extra, &gen.Spec{Tag: "OCCU", Value: m, Kids: []*gen.Spec{{Tag: "DATE", Value: "1900"}}})
			case 2:
				p.Extra = append(p.Extra, &gen.Spec{Tag: "RESI", Kids: []*gen.Spec{{Tag: "DATE", Value: fmt.Sprint(1500 + i*7 + k)}, {Tag: "NOTE", Value: m}}})
			}
		}
		// Details below a fact that both documents may have in common: the same
		// occupation line (bare on one side, detailed on the other, or both),
		// and a death that one side only knows as "1 DEAT" while the other has
		// a date, a place and a note. A merged individual must keep the details
		// whichever side is the bare one.
		if r.Chance(1, 2) {
			occ := &gen.Spec{Tag: "OCCU", Value: "worker " + p.Given}
			if r.Bool() {
				m := fmt.Sprintf("fact-%s-occu", p.Tracer)
				s.facts[p.Tracer] = append(s.facts[p.Tracer], m)
				occ.Kids = []*gen.Spec{{Tag: "NOTE", Value: m}}
			}
			p.Extra = append(p.Extra, occ)
		}
		// Facts of which a record usually has one only (record numbers, the sex):
		// the two originals disagree about them, and both statements are facts
		// the merged individual has to keep.
		if r.Chance(1, 2) {
			tag := []string{"RIN", "RFN", "AFN", "RESN", "REFN"}[r.Intn(5)]
			m := fmt.Sprintf("fact-%s-%s", p.Tracer, strings.ToLower(tag))
			s.facts[p.Tracer] = append(s.facts[p.Tracer], m)
			p.Extra = append(p.Extra, &gen.Spec{Tag: tag, Value: m})
		}
		// The copy spells the name differently (no slashes round the surname,
		// other spacing) and says where that spelling comes from in lines of its
		// own below the NAME: a second NAME line of the merged individual, which
		// has to keep what hangs below it.
		if side == "R" && r.Chance(1, 4) && !p.NoName && p.Given != "" && p.Surname != "" {
			p.NameText = []string{p.Given + " " + p.Surname, p.Given + "  /" + p.Surname + "/", p.Given + " /" + p.Surname + "/ "}[r.Intn(2)]
			m := fmt.Sprintf("fact-%s-name", p.Tracer)
			s.facts[p.Tracer] = append(s.facts[p.Tracer], m)
			p.NameSub = append(append([]*gen.Spec{}, p.NameSub...), &gen.Spec{Tag: "TYPE", Value: "aka"}, &gen.Spec{Tag: "NOTE", Value: m})
		}
		if side == "R" && r.Chance(1, 5) && (p.Sex == "M" || p.Sex == "F") {
			p.Sex = map[string]string{"M": "F", "F": "M"}[p.Sex] // the copy was corrected (or mistyped)
		}
		if p.Sex != "" {
			s.facts[p.Tracer] = append(s.facts[p.Tracer], "SEX="+p.Sex)
		}
		if p.Ev("DEAT") != nil {
			switch r.Intn(4) {
			case 0:
				p.BareEv = map[string]bool{"DEAT": true}
			case 1:
				m := fmt.Sprintf("fact-%s-deat", p.Tracer)
				s.facts[p.Tracer] = append(s.facts[p.Tracer], m)
				p.Sub = map[string][]*gen.Spec{"DEAT": {{Tag: "NOTE", Value: m}}}
			}
		}
	}
	for i, f := range g.Families {
		tr := fmt.Sprintf("%sF%02d", side, i)
		f.Extra = append(f.Extra, &gen.Spec{Tag: "_TRC", Value: tr})
		s.ptr[f.Ptr] = tr
		add := func(tag string, pi int) {
			p := g.People[pi]
			s.refs = append(s.refs, c10Ref{tr, tag, p.Tracer, p.Ptr})
		}
		if f.Husb >= 0 {
			add("HUSB", f.Husb)
		}
		if f.Wife >= 0 {
			add("WIFE", f.Wife)
		}
		for _, k := range f.Kids {
			add("CHIL", k)
		}
	}
	for _, p := range g.People {
		for _, fi := range p.FamS {
			s.refs = append(s.refs, c10Ref{p.Tracer, "FAMS", fmt.Sprintf("%sF%02d", side, fi), g.Families[fi].Ptr})
		}
		for _, fi := range p.FamC {
			s.refs = append(s.refs, c10Ref{p.Tracer, "FAMC", fmt.Sprintf("%sF%02d", side, fi), g.Families[fi].Ptr})
		}
	}
	// half of the documents have a header and a trailer record, as real files do
	g.Head = r.Bool()
	s.text = g.Text()
	return s
}

// c10EditedCopy makes an independently edited copy of g: optional pointer
// renumbering, dropped and added people, extra facts come from c10Trace.
func c10EditedCopy(r *fw.Rand, g *gen.FG, renumber bool, drop bool) *gen.FG {
	c := &gen.FG{}
	keep := map[int]int{}
	for _, p := range g.People {
		if drop && r.Chance(1, 6) && len(p.FamS) == 0 && len(p.FamC) == 0 {
			continue
		}
		q := *p
		q.Idx = len(c.People)
		q.Extra = nil
		q.Sub, q.BareEv = nil, nil
		q.Tracer = ""
		q.Events = nil
		for _, e := range p.Events {
			ce := *e
			q.Events = append(q.Events, &ce)
		}
		q.FamS, q.FamC = append([]int{}, p.FamS...), append([]int{}, p.FamC...)
		if renumber {
			q.Ptr = fmt.Sprintf("J%d", 100+len(c.People))
		}
		keep[p.Idx] = q.Idx
		c.People = append(c.People, &q)
	}
	for _, f := range g.Families {
		nf := &gen.Family{Idx: len(c.Families), Ptr: f.Ptr, Husb: -1, Wife: -1}
		if renumber {
			nf.Ptr = fmt.Sprintf("G%d", 100+len(c.Families))
		}
		if x, ok := keep[f.Husb]; ok && f.Husb >= 0 {
			nf.Husb = x
		}
		if x, ok := keep[f.Wife]; ok && f.Wife >= 0 {
			nf.Wife = x
		}
		for _, k := range f.Kids {
			if x, ok := keep[k]; ok {
				nf.Kids = append(nf.Kids, x)
			}
		}
		for _, e := range f.Events {
			ce := *e
			nf.Events = append(nf.Events, &ce)
		}
		c.Families = append(c.Families, nf)
	}
	if drop && r.Chance(1, 2) { // an added person nobody has on the left
		extra := gen.NewFG(r, gen.FGOpts{People: 1, UniqueTokens: true, TokenBase: 40000 + r.Intn(1000), PtrPrefix: "N", NoLiving: true})
		for _, p := range extra.People {
			p.Idx = len(c.People)
			p.FamS, p.FamC = nil, nil
			c.People = append(c.People, p)
		}
	}
	return c
}

// c10BigCase: scenario same-pointers, default configuration.
const c10BigCase = 45

func c10N(tier string) int {
	if tier == "thorough" {
		return 120000
	}
	return 4000
}

var c10Scenarios = []string{"same-pointers", "renumbered", "disjoint", "clashing-pointers", "empty-side", "same-pointers-dropped-added", "shared-unique-id", "unique-id-under-rotated-pointers", "families-renumbered-only"}

func init() {
	fw.Register(&fw.Prop{
		ID:       "C10",
		Title:    "Merging documents accounts for every person and keeps links valid",
		NeedsCLI: true,
		Cases:    func(tier string, seed uint64) int { return c10N(tier) },
		Run:      c10Run,
		Rule: "pairs of referentially closed family-graph documents in which every record carries a unique tracer (_TRC) and every fact a unique marker (new facts, and details below facts both sides have in common: the same OCCU line or a DEAT that is bare on one side and detailed on the other): base + edited copy with the same pointers, with renumbered pointers, with dropped/added people; disjoint documents; different people under clashing pointers; an empty side; two left people sharing a unique id with one right person. Default, strict (0.95) and lenient (0.3) thresholds x PreferPointerAbove {0, default, 1}; through gedcom.MergeDocumentsAndIndividuals, through the query function printed by the gedcom formatter, and (every 10th case) through the built CLI. " +
			"checks on a fresh decode of the output text: every input tracer in exactly one output individual, at most one left and one right tracer per output individual, every fact marker of its originals present, and every input reference (family->person, person->family) resolves to the record carrying the tracer it meant. non-trivial = a pair merged under different pointers or a family referencing a merged person; distinct by text of the pair",
		Floors: func(a *fw.Agg, tier string) []string {
			var f []string
			for _, k := range []string{"merges", "output-individuals-from-both-sides", "references-checked", "facts-checked", "query-path", "cli-runs"} {
				if a.Counters[k] < 20 {
					f = append(f, fmt.Sprintf("%s=%d < 20", k, a.Counters[k]))
				}
			}
			for _, s := range c10Scenarios {
				if a.Class("scenario", s) < 10 {
					f = append(f, "scenario hardly exercised: "+s)
				}
			}
			return f
		},
		Assumptions: []string{
			"_TRC is a custom tag that similarity ignores; names are unique tokens so that different people are dissimilar",
			"who is matched with whom is not prescribed (thresholds vary); everything is derived from the tracers found in the output",
		},
	})
}

type c10Out struct {
	doc   *gedcom.Document
	text  string
	byTrc map[string][]gedcom.Node // tracer -> output records carrying it
}

func c10Tracers(n gedcom.Node) []string {
	var o []string
	for _, k := range n.Nodes() {
		if k.Tag().Tag() == "_TRC" {
			o = append(o, k.Value())
		}
	}
	return o
}

func c10Index(text string) (*c10Out, error) {
	doc, err := gedcom.NewDocumentFromString(text)
	if err != nil {
		return nil, err
	}
	o := &c10Out{doc: doc, text: text, byTrc: map[string][]gedcom.Node{}}
	for _, n := range doc.Nodes() {
		for _, t := range c10Tracers(n) {
			o.byTrc[t] = append(o.byTrc[t], n)
		}
	}
	return o, nil
}

func c10HasMarker(n gedcom.Node, m string) bool {
	if strings.HasPrefix(m, "SEX=") {
		for _, k := range n.Nodes() {
			if k.Tag().Is(gedcom.TagSex) && k.Value() == m[4:] {
				return true
			}
		}
		return false
	}
	if n.Value() == m {
		return true
	}
	for _, k := range n.Nodes() {
		if c10HasMarker(k, m) {
			return true
		}
	}
	return false
}

// c10Check verifies an output text against the two traced inputs.
func c10Check(c *fw.Ctx, L, R *c10Side, outText, via string, payload interface{}) {
	out, err := c10Index(outText)
	if err != nil {
		c.Violation("undecodable:"+via, fmt.Sprintf("the merged document does not decode: %v\n%s", err, clip(outText, 800)), payload)
		return
	}
	say := func(sig, format string, args ...interface{}) {
		c.Violation(sig+":"+via, fmt.Sprintf(format, args...), payload)
	}
	// pointer -> how many output records use it
	ptrCount := map[string]int{}
	for _, n := range out.doc.Nodes() {
		if p := n.Pointer(); p != "" {
			ptrCount[p]++
		}
	}
	mergedInto := map[string]gedcom.Node{} // tracer -> output record
	both := 0
	for _, side := range []*c10Side{L, R} {
		for _, p := range side.g.People {
			recs := out.byTrc[p.Tracer]
			switch {
			case len(recs) == 0:
				say("dropped-individual", "input individual %s (%s %s) appears in no output individual", p.Tracer, p.Ptr, p.FullName())
				continue
			case len(recs) > 1:
				cause := "other"
				if len(p.UIDs) > 0 {
					cause = "shares-unique-id"
				}
				say("duplicated-individual:"+cause, "input individual %s (%s) appears in %d output individuals", p.Tracer, p.Ptr, len(recs))
			}
			rec := recs[0]
			if rec.Tag().Tag() != "INDI" {
				say("wrong-record-kind", "tracer %s of an individual is carried by a %s record", p.Tracer, rec.Tag().Tag())
			}
			// the tracer itself must not be repeated inside the record
			cnt := 0
			for _, t := range c10Tracers(rec) {
				if t == p.Tracer {
					cnt++
				}
			}
			if cnt > 1 {
				say("duplicated-individual:inside-record", "tracer %s occurs %d times in one output individual", p.Tracer, cnt)
			}
			mergedInto[p.Tracer] = rec
			for _, m := range side.facts[p.Tracer] {
				c.Count("facts-checked", 1)
				if !c10HasMarker(rec, m) {
					say("lost-fact", "output individual %s (tracers %v) lacks fact %s of its original %s", rec.Pointer(), c10Tracers(rec), m, p.Tracer)
				}
			}
		}
	}
	for _, n := range out.doc.Individuals() {
		ls, rs := 0, 0
		for _, t := range c10Tracers(n) {
			if strings.HasPrefix(t, "L") {
				ls++
			} else if strings.HasPrefix(t, "R") {
				rs++
			}
		}
		if ls > 1 || rs > 1 {
			say("merged-several-from-one-side", "output individual %s stems from %d left and %d right individuals (%v)", n.Pointer(), ls, rs, c10Tracers(n))
		}
		if ls+rs == 0 {
			say("invented-individual", "output individual %s carries no tracer", n.Pointer())
		}
		if ls == 1 && rs == 1 {
			both++
		}
	}
	c.Count("output-individuals-from-both-sides", int64(both))
	// references
	for _, side := range []*c10Side{L, R} {
		sname := "left"
		if side == R {
			sname = "right"
		}
		for _, ref := range side.refs {
			c.Count("references-checked", 1)
			froms := out.byTrc[ref.from]
			if len(froms) == 0 {
				if strings.Contains(ref.from, "F") {
					say("dropped-family", "input family %s appears in no output record", ref.from)
				}
				continue // dropped individual already reported
			}
			from := froms[0]
			ok := false
			sawOriginal, resolvedNothing, resolvedOther := false, false, false
			for _, k := range from.Nodes() {
				if k.Tag().Tag() != ref.tag {
					continue
				}
				v := strings.Trim(k.Value(), "@")
				target := out.doc.NodeByPointer(v)
				if target != nil {
					for _, t := range c10Tracers(target) {
						if t == ref.to {
							ok = true
						}
					}
				}
				if v == ref.ptr {
					sawOriginal = true
					if target == nil {
						resolvedNothing = true
					} else {
						resolvedOther = true
					}
				}
			}
			if ok {
				continue
			}
			// classify the cause
			target := mergedInto[ref.to]
			if target == nil {
				if recs := out.byTrc[ref.to]; len(recs) > 0 {
					target = recs[0]
				}
			}
			switch {
			case !sawOriginal:
				say("lost-reference", "%s reference %s %s -> %s (@%s@) has no counterpart in output record %s", sname, ref.from, ref.tag, ref.to, ref.ptr, from.Pointer())
			case resolvedNothing && target != nil && target.Pointer() != ref.ptr:
				say("dangling:ref-to-pointer-of-record-merged-into-a-different-pointer:"+sname+"-reference-to-"+map[bool]string{true: "family", false: "individual"}[ref.tag == "FAMS" || ref.tag == "FAMC"], "%s reference %s %s @%s@ dangles: the record it meant (%s) is now @%s@ and no pointer was rewritten", sname, ref.from, ref.tag, ref.ptr, ref.to, target.Pointer())
			case resolvedNothing:
				say("dangling:other", "%s reference %s %s @%s@ resolves to nothing in the output", sname, ref.from, ref.tag, ref.ptr)
			case resolvedOther && (ptrCount[ref.ptr] > 1 || (L.ptr[ref.ptr] != "" && R.ptr[ref.ptr] != "")):
				say("ambiguous:pointer-clash-between-records-of-the-two-inputs", "%s reference %s %s @%s@ now resolves to a record that is not %s: pointer @%s@ is used by both inputs for different records (%s / %s) and no pointer was rewritten", sname, ref.from, ref.tag, ref.ptr, ref.to, ref.ptr, L.ptr[ref.ptr], R.ptr[ref.ptr])
			default:
				say("wrong-target:other", "%s reference %s %s @%s@ resolves to a record that does not represent %s", sname, ref.from, ref.tag, ref.ptr, ref.to)
			}
		}
	}
	// every reference line of the output, also the ones that have a resolving
	// twin next to them (FAMS @F1@ and FAMS @G1@ on one person): none points
	// to nothing. The one exception is the listed finding, which the loop
	// above reports: lines of the right input that name an individual of the
	// right input who was merged under a left pointer.
	for _, n := range out.doc.Nodes() {
		for _, k := range n.Nodes() {
			tag := k.Tag().Tag()
			fam := tag == "FAMS" || tag == "FAMC"
			if !fam && tag != "HUSB" && tag != "WIFE" && tag != "CHIL" {
				continue
			}
			v := strings.Trim(k.Value(), "@")
			if v == "" || out.doc.NodeByPointer(v) != nil {
				continue
			}
			c.Count("dangling-output-lines-looked-at", 1)
			if !fam && strings.HasPrefix(R.ptr[v], "R") && !strings.Contains(R.ptr[v], "F") && L.ptr[v] == "" {
				continue
			}
			say("dangling-line-in-output:"+map[bool]string{true: "to-family", false: "to-individual"}[fam], "output record %s has the line %s @%s@, which points to nothing (the inputs are referentially closed)", n.Pointer(), tag, v)
		}
	}
}

// c10CompiledQuery: parsed once per worker process, evaluated for many pairs.
var c10CompiledQuery *q.Engine

func c10Run(c *fw.Ctx, i int) {
	r := c.R
	scen := c10Scenarios[i%len(c10Scenarios)]
	c.Class("scenario", scen)
	n := r.Range(1, 14)
	// one document per run is large: more than 2,000 people who are all found
	// again under their pointer (the pipeline's channels hold 1,000 items)
	big := i == c10BigCase
	if big {
		n = 2100
	}
	base := gen.NewFG(r, gen.FGOpts{People: n, UniqueTokens: true, TokenBase: i * 97 % 30000, ExactDates: true, NoLiving: true, WithUIDs: false})
	var right *gen.FG
	switch scen {
	case "same-pointers":
		right = c10EditedCopy(r, base, false, false)
	case "renumbered":
		right = c10EditedCopy(r, base, true, r.Bool())
	case "disjoint":
		right = gen.NewFG(r, gen.FGOpts{People: r.Range(1, 10), UniqueTokens: true, TokenBase: 50000 + i%1000*40, PtrPrefix: "J", ExactDates: true, NoLiving: true})
	case "clashing-pointers":
		right = gen.NewFG(r, gen.FGOpts{People: r.Range(1, 10), UniqueTokens: true, TokenBase: 50000 + i%1000*40, ExactDates: true, NoLiving: true})
	case "empty-side":
		right = &gen.FG{}
		if r.Bool() {
			base, right = right, base
		}
	case "same-pointers-dropped-added":
		right = c10EditedCopy(r, base, false, true)
	case "families-renumbered-only":
		// the people keep their pointers, the families were entered again
		// under other pointers (all of them, or every second one)
		right = c10EditedCopy(r, base, false, r.Bool())
		every := r.Bool()
		for k, f := range right.Families {
			if every || k%2 == 0 {
				f.Ptr = fmt.Sprintf("G%d", 100+k)
			}
		}
	case "unique-id-under-rotated-pointers":
		// the same people, but person k on the right carries the pointer that person k+1 has
		// on the left; half of them are identified by a unique id
		right = c10EditedCopy(r, base, false, false)
		n := len(right.People)
		for k, p := range right.People {
			p.Ptr = base.People[(k+1)%n].Ptr
		}
		for k := range base.People {
			if k%2 == 0 && k < len(right.People) {
				uid := fmt.Sprintf("%032X", uint64(k+1)*0x9E3779B97F4A7C15)
				base.People[k].UIDs = []string{uid[:32]}
				right.People[k].UIDs = []string{uid[:32]}
			}
		}
	case "shared-unique-id":
		right = c10EditedCopy(r, base, true, false)
		// two left people share a unique id with one right person
		if len(base.People) >= 2 && len(right.People) >= 1 {
			uid := "92FF8B766F327F48A256C3AE6DAE50D3"
			base.People[0].UIDs = []string{uid}
			base.People[1].UIDs = []string{uid}
			right.People[0].UIDs = []string{uid}
		}
	}
	L := c10Trace(base, "L", r)
	R := c10Trace(right, "R", r)
	payload := map[string]interface{}{"left": L.text, "right": R.text, "scenario": scen}
	ld, err1 := gedcom.NewDocumentFromString(L.text)
	rd, err2 := gedcom.NewDocumentFromString(R.text)
	if err1 != nil || err2 != nil {
		c.HarnessError(fmt.Sprintf("C10 inputs do not decode: %v %v", err1, err2))
		return
	}
	// Every third pair has an input that was edited through the API before
	// the merge, with its views read beforehand: it was decoded with one more
	// person (connected to nobody), who is then deleted. Its text is the text
	// the oracle knows.
	if i%3 == 1 && !big {
		side, text := ld, L.text
		if i%6 == 4 {
			side, text = rd, R.text
		}
		extra := "0 @X999@ INDI\n1 NAME Deleted /Before-The-Merge/\n1 _TRC XDELETED\n1 BIRT\n2 DATE 1 Jan 1700\n"
		with := text + extra
		if strings.HasSuffix(text, "0 TRLR\n") {
			with = strings.TrimSuffix(text, "0 TRLR\n") + extra + "0 TRLR\n"
		}
		if d, err := gedcom.NewDocumentFromString(with); err == nil {
			for _, x := range d.Individuals() {
				_, _, _ = x.Families(), x.Spouses(), x.Parents()
			}
			_, _ = d.Families(), d.NodeByPointer("X999")
			if x, ok := d.NodeByPointer("X999").(*gedcom.IndividualNode); ok {
				d.DeleteNode(x)
			}
			if want, _ := gedcom.NewDocumentFromString(text); want != nil && d.String() == want.String() {
				c.Count("inputs-edited-through-the-api-before-the-merge", 1)
				if side == ld {
					ld = d
				} else {
					rd = d
				}
				payload["edited_input"] = "one input was decoded with an extra person @X999@, its views were read, and the person was deleted with Document.DeleteNode before the merge"
			}
		}
	}
	opts := gedcom.NewIndividualNodesCompareOptions()
	conf := "default"
	switch (i / len(c10Scenarios)) % 5 {
	case 1:
		opts.SimilarityOptions.MinimumWeightedSimilarity, opts.SimilarityOptions.MinimumSimilarity = 0.95, 0.95
		conf = "strict"
	case 2:
		opts.SimilarityOptions.MinimumWeightedSimilarity, opts.SimilarityOptions.MinimumSimilarity = 0.3, 0.3
		conf = "lenient"
	case 3:
		opts.SimilarityOptions.PreferPointerAbove = 0
		conf = "prefer-pointer-0"
	case 4:
		opts.SimilarityOptions.PreferPointerAbove = 1
		conf = "prefer-pointer-1"
	}
	c.Class("configuration", conf)
	payload["configuration"] = conf
	var merged *gedcom.Document
	var err error
	pi, parked := fw.Guard(func() { merged, err = gedcom.MergeDocumentsAndIndividuals(ld, rd, gedcom.EqualityMergeFunction, opts) })
	if pi != nil {
		c.Violation("merge-panics:"+pi.Class, "MergeDocumentsAndIndividuals panicked: "+pi.Msg, payload)
		return
	}
	if parked != "" {
		if big {
			payload = map[string]interface{}{"scenario": scen, "people": n, "note": "inputs are generated from the case index"}
		}
		c.Violation("merge-does-not-return:deadlock@"+fw.InnermostRepoFrame(parked), fmt.Sprintf("MergeDocumentsAndIndividuals of two documents with %d and %d people never returns: every goroutine of the library is parked\n%s", len(base.People), len(right.People), clip(parked, 2500)), payload)
		return
	}
	if big {
		c.Count("large-documents", 1)
		payload = map[string]interface{}{"scenario": scen, "people": n, "note": "inputs are generated from the case index"}
	}
	if err != nil || merged == nil {
		c.Violation("merge-failed", fmt.Sprintf("MergeDocumentsAndIndividuals returned %v", err), payload)
		return
	}
	c.Count("merges", 1)
	outText := merged.String()
	c10Check(c, L, R, outText, "library", payload)
	// non-trivial?
	if o, err := c10Index(outText); err == nil {
		for _, n := range o.doc.Individuals() {
			ts := c10Tracers(n)
			if len(ts) >= 2 {
				lp, rp := "", ""
				for _, p := range L.g.People {
					if p.Tracer == ts[0] || p.Tracer == ts[1] {
						lp = p.Ptr
					}
				}
				for _, p := range R.g.People {
					if p.Tracer == ts[0] || p.Tracer == ts[1] {
						rp = p.Ptr
					}
				}
				if lp != rp || len(L.refs) > 0 {
					c.NontrivialStr(L.text + "\x00" + R.text)
				}
			}
		}
	}
	// the query function, printed by the gedcom formatter (default options only)
	if conf == "default" && !big {
		c.Count("query-path", 1)
		ld2, _ := gedcom.NewDocumentFromString(L.text)
		rd2, _ := gedcom.NewDocumentFromString(R.text)
		var buf bytes.Buffer
		var qerr error
		if pi := fw.Try(func() {
			// every second case uses a query that was compiled once and has
			// been evaluated for other pairs of documents before
			e := c10CompiledQuery
			if e == nil || i%2 == 0 {
				e, qerr = q.NewParser().ParseString("MergeDocumentsAndIndividuals(Document1, Document2)")
				if qerr != nil {
					return
				}
				if c10CompiledQuery == nil {
					c10CompiledQuery = e
				}
			} else {
				c.Count("query-path-compiled-query-used-again", 1)
			}
			var res interface{}
			res, qerr = e.Evaluate([]*gedcom.Document{ld2, rd2})
			if qerr != nil {
				return
			}
			qerr = (&q.GEDCOMFormatter{Writer: &buf}).Write(res)
		}); pi != nil {
			c.Violation("query-merge-panics:"+pi.Class, "the query MergeDocumentsAndIndividuals(Document1, Document2) panicked: "+pi.Msg, payload)
		} else if qerr != nil {
			c.Violation("query-merge-failed", fmt.Sprintf("the query MergeDocumentsAndIndividuals(Document1, Document2) failed: %v", qerr), payload)
		} else {
			c10Check(c, L, R, buf.String(), "query", payload)
			if a, b := c10Canon(buf.String()), c10Canon(outText); a != b {
				c.Violation("query-differs-from-library", fmt.Sprintf("the query result differs from the library result\nquery:\n%s\nlibrary:\n%s", clip(buf.String(), 600), clip(outText, 600)), payload)
			}
		}
		if bin := os.Getenv("VERIF_GEDCOM_BIN"); bin != "" && (i/len(c10Scenarios))%10 == 0 && !big {
			dir := os.Getenv("VERIF_SCRATCH")
			if dir == "" {
				dir = os.TempDir()
			}
			lf := filepath.Join(dir, fmt.Sprintf("c10-%d-%d-l.ged", os.Getpid(), i))
			rf := filepath.Join(dir, fmt.Sprintf("c10-%d-%d-r.ged", os.Getpid(), i))
			os.WriteFile(lf, []byte(L.text), 0o644)
			os.WriteFile(rf, []byte(R.text), 0o644)
			cmd := exec.Command(bin, "query", "-gedcom", lf, "-gedcom", rf, "-format", "gedcom", "MergeDocumentsAndIndividuals(Document1, Document2)")
			var so, se bytes.Buffer
			cmd.Stdout, cmd.Stderr = &so, &se
			rerr := cmd.Run()
			os.Remove(lf)
			os.Remove(rf)
			c.Count("cli-runs", 1)
			if rerr != nil {
				c.Violation("cli-merge-failed", fmt.Sprintf("gedcom query MergeDocumentsAndIndividuals exited with %v: %s", rerr, clip(se.String(), 600)), payload)
			} else {
				c10Check(c, L, R, so.String(), "cli", payload)
			}
		}
	}
	if c.WantSample(scen) {
		c.Sample(scen, map[string]interface{}{"left_people": len(L.g.People), "right_people": len(R.g.People), "configuration": conf, "output": clip(outText, 400)})
	}
}

// c10Canon: order-insensitive canonical form of a document text (records sorted).
func c10Canon(text string) string {
	doc, err := gedcom.NewDocumentFromString(text)
	if err != nil {
		return "undecodable"
	}
	var recs []string
	for _, n := range doc.Nodes() {
		recs = append(recs, gedcom.NewDocumentWithNodes(gedcom.Nodes{n}).String())
	}
	sort.Strings(recs)
	return strings.Join(recs, "")
}
