package props

import (
	"bytes"
	"compress/gzip"
	"fmt"
	"os"
	"os/exec"
	"path/filepath"
	"regexp"
	"strings"

	"github.com/elliotchance/gedcom/v39"

	"verif/fw"
	"verif/gen"
)

// C03 — decoding never crashes: any input yields a document or an error that
// names the offending line. Process-fatal crashes (stack overflow, runtime
// throw) and hangs are caught by the supervisor through the case marker.

var c03LineErr = regexp.MustCompile(`^line \d+: `)

// C03Verdict classifies one decode. sig=="" means the property held.
func C03Verdict(data []byte, ml, ii bool) (sig, detail string) {
	var doc *gedcom.Document
	var err error
	// Decode must return: fw.Guard reads off the goroutines whether the call
	// is parked for ever (a reader goroutine nobody drains, a wait that is
	// never answered), independently of the clock.
	pi, parked := fw.Guard(func() {
		d := gedcom.NewDecoder(bytes.NewReader(data))
		d.AllowMultiLine = ml
		d.AllowInvalidIndents = ii
		doc, err = d.Decode()
	})
	if parked != "" {
		return "decode-does-not-return:deadlock@" + fw.InnermostRepoFrame(parked), "Decode never returns: every goroutine of the library is parked\n" + clip(parked, 2000)
	}
	switch {
	case pi != nil:
		if strings.HasPrefix(pi.Msg, "indent is too large") && !ii {
			return "", "" // the documented panic
		}
		return pi.Sig(), "panic: " + pi.Msg
	case err != nil:
		if doc != nil {
			return "error-and-document", fmt.Sprintf("both a document and error %q returned", err)
		}
		if !c03LineErr.MatchString(err.Error()) {
			return "error-without-line", fmt.Sprintf("error %q does not name the offending line", err)
		}
	case doc == nil:
		return "nil-nil", "neither a document nor an error"
	}
	return "", ""
}

func c03Adversarial() [][]byte {
	var out [][]byte
	add := func(s string) { out = append(out, []byte(s)) }
	for lvl := 1; lvl <= 12; lvl++ {
		for _, rest := range []string{"NAME x", "HUSB @I1@", "@I1@ INDI", "@F1@ FAM", "CHIL @I1@", "DATE 1 Jan 1900"} {
			add(fmt.Sprintf("%d %s\n", lvl, rest))
			add(fmt.Sprintf("%d %s\n0 HEAD\n", lvl, rest))
			add(fmt.Sprintf("\n\n%d %s", lvl, rest))
		}
	}
	for _, role := range []string{"HUSB", "WIFE", "CHIL"} {
		for _, v := range []string{"@I1@", "", "@@", "I1", "@I1", "@ @", "@I1@ extra"} {
			add("0 " + role + " " + v + "\n")
			add("0 HEAD\n1 " + role + " " + v + "\n")
			add("0 @I1@ INDI\n1 " + role + " " + v + "\n")
			add("0 @I1@ INDI\n1 NAME a\n2 " + role + " " + v + "\n")
			add("0 @F1@ FAM\n1 " + role + " " + v + "\n")
			add("0 @F1@ FAM\n1 MARR\n2 " + role + " " + v + "\n")
			add("0 @F1@ FAM\n0 " + role + " " + v + "\n")
			add("0 @F1@ FAM\n0 @I1@ INDI\n1 " + role + " " + v + "\n")
			add("0 " + role + " " + v + "\n0 @F1@ FAM\n")
			add("0 @P@ " + role + " " + v + "\n1 NOTE x\n")
		}
	}
	for _, rec := range []string{"INDI", "FAM"} {
		add("0 HEAD\n1 @X@ " + rec + "\n2 NAME a /b/\n")
		add("0 @I1@ INDI\n1 @X@ " + rec + "\n2 " + rec + "\n3 " + rec + "\n")
		add("0 " + rec + "\n")
		add("0 " + rec + " value\n")
		add("0 @@ " + rec + "\n")
		add("0 @ @ " + rec + "\n")
		add("0 @@@ " + rec + "\n")
		add("0 @a@b@ " + rec + "\n")
		add("0 @F1@ FAM\n1 @F2@ " + rec + "\n2 HUSB @I1@\n2 CHIL @I2@\n")
	}
	for _, s := range []string{
		"", "\n", "\r", "\r\n\r\n", " ", "0", "0 ", "00", "0  ", "0 @I1@", "0 @I1@ ", "0 @I1@  INDI", "@I1@ INDI", "INDI", "-1 HEAD", "+0 HEAD", "0x1 HEAD",
		"0 HEAD\n2 NAME x\n", "0 HEAD\n5 NAME x\n", "0 HEAD\n1 A\n9 B\n", "0 HEAD\n1 A\n2 B\n4 C\n", "0 HEAD\n1 A\n3 B\n1 C\n2 D\n",
		"99999999999999999999 NAME x\n", "0 HEAD\n99999999999999999999 NAME x\n", "0 HEAD\n18446744073709551616 X\n", "0 HEAD\n2147483648 X\n", "0 HEAD\n4294967297 X\n",
		"\xef\xbb\xbf", "\xef\xbb\xbfjunk", "\xef\xbb\xbf\xef\xbb\xbf0 HEAD\n", "\xef\xbb", "\xff\xfe0\x00 \x00H\x00", "\x00", "0 HEAD\x00\n1 \x00 x\n",
		"0 HEAD\n1 CONC\n1 CONT\n", "0 TRLR\n0 TRLR\n", "0 @I1@ INDI\n0 @I1@ INDI\n0 @I1@ FAM\n",
		"0 @S1@ SOUR value\n1 TITL\n", "0 @N1@ NOTE @N1@\n", "0 NOTE\n1 NOTE\n2 NOTE\n3 NOTE\n",
		"0 SEX M\n1 NOTE child of sex\n", "0 @I1@ INDI\n1 SEX\n2 SEX\n3 SEX\n",
		"0 DATE\n", "0 DATE garbage\n1 DATE\n", "0 _UID\n", "0 _UID zz\n", "0 NAME /\n", "0 NAME //\n", "0 PLAC ,,,\n",
		"junk\n", "junk\n0 HEAD\n", "0 HEAD\njunk\n", "0 HEAD\n\njunk\n\n", " 0 HEAD\n", "0\tHEAD\n", "0 HEAD\t\n", "0 HE AD\n", "0 HÉAD\n", "0 @I1@INDI\n",
	} {
		add(s)
	}
	// a fault early in a long file: whatever reads ahead must not be left waiting
	for _, first := range []string{"junk", "1 NAME x", "0 HUSB @I1@", "0 HEAD\n3 NOTE too deep", "0 HEAD\n1 @I1@"} {
		for _, n := range []int{200, 300, 1100, 5000} {
			add(first + "\n" + strings.Repeat("0 NOTE after the fault\n1 CONT more\n", n/2))
		}
	}
	add("0 NOTE " + strings.Repeat("x", 1<<20) + "\n")
	add(strings.Repeat("9", 1<<16) + " NOTE\n")
	add("0 @" + strings.Repeat("p", 1<<16) + "@ INDI\n")
	add(strings.Repeat("\n", 100000))
	add(strings.Repeat("\r\n", 50000) + "0 HEAD")
	add("0 HEAD\n" + strings.Repeat("1 NOTE x\n", 20000))
	{
		var sb strings.Builder
		for i := 0; i < 3000; i++ {
			fmt.Fprintf(&sb, "%d NOTE deep\n", i)
		}
		add(sb.String())
	}
	// streams that begin like something else (compressed files, archives,
	// other encodings): they are not GEDCOM and are refused like any other junk
	{
		valid := "0 HEAD\n1 CHAR UTF-8\n0 @I1@ INDI\n1 NAME A /B/\n0 TRLR\n"
		var gz bytes.Buffer
		zw := gzip.NewWriter(&gz)
		zw.Write([]byte(valid))
		zw.Close()
		add(gz.String())
		add(gz.String()[:gz.Len()/2])
		add("\x1f\x8b")
		add("\x1f\x8b\x08\x00 not really\n0 HEAD\n")
		add("\x1f\x8b" + valid)
		add("PK\x03\x04" + valid)
		add("BZh91AY&SY" + valid)
		add("\xfd7zXZ\x00" + valid)
		add("\xff\xfe0\x00 \x00H\x00E\x00A\x00D\x00\n\x00")
		add("\xfe\xff\x000\x00 \x00H\x00E\x00A\x00D\x00\n")
		add("\x00\x00\xfe\xff" + valid)
		add("\x00" + valid)
		add("<?xml version=\"1.0\"?>\n<gedcom/>\n")
		add("{\"gedcom\": true}\n")
	}
	return out
}

// c03EntryPoints: the same bytes through the other ways into the decoder (a
// file on disk, a string). Each of them must keep the contract (a document, or
// an error naming the line, or the documented panic) and reach the outcome the
// decoder reaches with its default options.
func c03EntryPoints(c *fw.Ctx, data []byte, kind string) {
	class := func(doc *gedcom.Document, err error, pi *fw.PanicInfo, parked string) (string, string) {
		switch {
		case parked != "":
			return "does-not-return", clip(parked, 1500)
		case pi != nil && strings.HasPrefix(pi.Msg, "indent is too large"):
			return "documented-indent-panic", ""
		case pi != nil:
			return "panic:" + pi.Sig(), pi.Msg
		case err != nil && doc != nil:
			return "error-and-document", err.Error()
		case err != nil && c03LineErr.MatchString(err.Error()):
			return "rejected-with-line-error", ""
		case err != nil:
			return "error-without-line", err.Error()
		case doc == nil:
			return "nil-nil", ""
		}
		return "accepted", ""
	}
	run := func(f func() (*gedcom.Document, error)) (string, string) {
		var doc *gedcom.Document
		var err error
		pi, parked := fw.Guard(func() { doc, err = f() })
		return class(doc, err, pi, parked)
	}
	want, _ := run(func() (*gedcom.Document, error) { return gedcom.NewDecoder(bytes.NewReader(data)).Decode() })
	dir := os.Getenv("VERIF_SCRATCH")
	if dir == "" {
		dir = os.TempDir()
	}
	c03CLISeq++
	path := filepath.Join(dir, fmt.Sprintf("c03-entry-%d-%d.ged", os.Getpid(), c03CLISeq))
	if err := os.WriteFile(path, data, 0o644); err != nil {
		c.HarnessError("cannot write scratch file: " + err.Error())
		return
	}
	defer os.Remove(path)
	for _, ep := range []struct {
		name string
		f    func() (*gedcom.Document, error)
	}{
		{"NewDocumentFromGEDCOMFile", func() (*gedcom.Document, error) { return gedcom.NewDocumentFromGEDCOMFile(path) }},
		{"NewDocumentFromString", func() (*gedcom.Document, error) { return gedcom.NewDocumentFromString(string(data)) }},
	} {
		c.Count("entry-point-decodes", 1)
		got, detail := run(ep.f)
		payload := map[string]interface{}{"bytes": clip(string(data), 4000), "entry_point": ep.name, "kind": kind}
		switch got {
		case "accepted", "rejected-with-line-error", "documented-indent-panic":
			if got != want && (want == "accepted" || want == "rejected-with-line-error" || want == "documented-indent-panic") {
				c.Violation("entry-point-differs:"+ep.name+":"+got+"-vs-"+want, fmt.Sprintf("%s: %s, but Decoder.Decode with default options: %s\ninput (%d bytes): %q", ep.name, got, want, len(data), clip(string(data), 300)), payload)
			}
		default:
			c.Violation("entry-point:"+ep.name+":"+got, fmt.Sprintf("%s: %s %s\ninput (%d bytes): %q", ep.name, got, detail, len(data), clip(string(data), 300)), payload)
		}
	}
}

const c03PerCase = 50

func c03Rand(tier string) int {
	if tier == "thorough" {
		return 500000 / c03PerCase
	}
	return 60000 / c03PerCase
}

func c03Mut(tier string) int {
	if tier == "thorough" {
		return 200000 / c03PerCase
	}
	return 30000 / c03PerCase
}

func init() {
	nAdv := len(c03Adversarial())
	fw.Register(&fw.Prop{
		ID:       "C03",
		CaseCPU:  600,
		Title:    "Decoding never crashes: any input yields a document or an error",
		NeedsCLI: true,
		Cases:    func(tier string, seed uint64) int { return nAdv + c03Rand(tier) + c03Mut(tier) },
		Run:      c03Run,
		Extra:    c03Fuzz,
		Rule: "each input decoded under all 4 combinations of AllowMultiLine x AllowInvalidIndents with recover() and classification; process-fatal crashes and hangs attributed by the supervisor. Inputs: enumerated structure-aware adversarial list (first line at level 1..12, role tags before/outside/after families, records nested in records, malformed xrefs, level overflow, BOM variants, 1 MB line, 100k blank lines, 3000-deep nesting), random GEDCOM-biased byte strings (50 per case), truncated/byte-mutated generated files (50 per case). Every adversarial input and every 25th other input also goes through the decoder options of the real CLI ('gedcom diff -allow-multi-line -allow-invalid-indents', the file against itself) under all 4 flag combinations; the outcome class (decoded / error naming the line / documented panic) must be the one the library gives with the same options. " +
			"non-trivial = input has a line with a leading digit (reaches the line parser); distinct by hash of bytes+options",
		Floors: func(a *fw.Agg, tier string) []string {
			var f []string
			for _, k := range []string{"decodes", "accepted", "rejected-with-line-error", "documented-indent-panic", "cli-decodes", "cli-accepted", "cli-rejected-with-line-error", "cli-documented-indent-panic"} {
				if a.Counters[k] < 20 {
					f = append(f, fmt.Sprintf("%s=%d < 20", k, a.Counters[k]))
				}
			}
			return f
		},
		Assumptions: []string{"'indent is too large' is tolerated only while AllowInvalidIndents is off", "an error must start with 'line <n>:'"},
	})
}

func c03One(c *fw.Ctx, data []byte, kind string) {
	reaches := false
	for i, b := range data {
		if b >= '0' && b <= '9' && (i == 0 || data[i-1] == '\n' || data[i-1] == '\r' || (i == 3 && bytes.HasPrefix(data, []byte("\xef\xbb\xbf")))) {
			reaches = true
			break
		}
	}
	for _, o := range c02Opts {
		c.Count("decodes", 1)
		if reaches {
			c.Nontrivial(fw.HashStr(string(data)) ^ fw.Mix(uint64(b2i(o.ml)), uint64(b2i(o.ii))))
		}
		sig, detail := C03Verdict(data, o.ml, o.ii)
		if sig != "" {
			c.Violation(sig, fmt.Sprintf("[%s] %s\ninput (%d bytes): %q", o, detail, len(data), clip(string(data), 300)),
				map[string]interface{}{"bytes": clip(string(data), 4000), "AllowMultiLine": o.ml, "AllowInvalidIndents": o.ii, "kind": kind})
			continue
		}
		// classify the outcome for the evidence
		doc, err, pi := c02Decode(data, o)
		switch {
		case pi != nil:
			c.Count("documented-indent-panic", 1)
		case err != nil:
			c.Count("rejected-with-line-error", 1)
		case doc != nil:
			c.Count("accepted", 1)
		}
	}
	if c.WantSample(kind) {
		c.Sample(kind, clip(string(data), 200))
	}
}

var c03CLISeq int

// c03CLI drives the decoder through the options of the real binary: the diff
// command is the one that exposes -allow-multi-line and -allow-invalid-indents.
// Only the decoding stage is judged here (what the command does with an
// accepted file is C14's subject): the process must reach the same outcome
// class as the library under the same options.
func c03CLI(c *fw.Ctx, data []byte, kind string) {
	bin := os.Getenv("VERIF_GEDCOM_BIN")
	if bin == "" || len(data) > 1<<16 {
		return
	}
	dir := os.Getenv("VERIF_SCRATCH")
	if dir == "" {
		dir = os.TempDir()
	}
	c03CLISeq++
	pfx := filepath.Join(dir, fmt.Sprintf("c03-%d-%d", os.Getpid(), c03CLISeq))
	if err := os.WriteFile(pfx+".ged", data, 0o644); err != nil {
		c.HarnessError(err.Error())
		return
	}
	defer os.Remove(pfx + ".ged")
	defer os.Remove(pfx + ".html")
	for _, o := range c02Opts {
		doc, lerr, lpi := c02Decode(data, o)
		want := "accepted"
		switch {
		case lpi != nil && strings.HasPrefix(lpi.Msg, "indent is too large") && !o.ii:
			want = "documented-indent-panic"
		case lpi != nil:
			continue // the library itself violates the property here; reported by c03One
		case lerr != nil:
			want = "rejected-with-line-error"
		case doc == nil:
			continue
		}
		args := []string{"diff", "-left-gedcom", pfx + ".ged", "-right-gedcom", pfx + ".ged", "-output", pfx + ".html", "-jobs", "1"}
		if o.ml {
			args = append(args, "-allow-multi-line")
		}
		if o.ii {
			args = append(args, "-allow-invalid-indents")
		}
		out, err, okRun := runCLI(c, "cli", map[string]interface{}{"bytes": clip(string(data), 4000), "cli_args": args}, nil, 60, bin, args...)
		c.Count("cli-decodes", 1)
		if !okRun {
			continue
		}
		got := "accepted"
		switch {
		case CrashedGo(out, err) && strings.Contains(out, "indent is too large"):
			got = "documented-indent-panic"
		case CrashedGo(out, err) && strings.Contains(out, "(*Decoder).Decode"):
			got = "decoder-crash"
		case CrashedGo(out, err) && want == "accepted":
			c.Count("cli-crash-after-decoding (C14's subject)", 1)
			continue
		case CrashedGo(out, err):
			// the library refuses this input, the command went on with it
			got = "crash-after-the-decoder-returned"
		case err != nil && c03CLILineErr.MatchString(out):
			got = "rejected-with-line-error"
		case err != nil:
			got = "failed-otherwise"
		}
		c.Count("cli-"+got, 1)
		if got != want {
			c.Violation("cli:"+want+"-expected:"+got, fmt.Sprintf("[%s] the library gives %q for this input and these options, 'gedcom diff' with the same options gives %q\noutput: %s\ninput (%d bytes): %q", o, want, got, clip(out, 600), len(data), clip(string(data), 300)),
				map[string]interface{}{"bytes": clip(string(data), 4000), "AllowMultiLine": o.ml, "AllowInvalidIndents": o.ii, "kind": kind, "cli_args": args})
		}
	}
}

var c03CLILineErr = regexp.MustCompile(`line \d+: `)

func b2i(b bool) int {
	if b {
		return 1
	}
	return 0
}

func c03RandomBytes(r *fw.Rand) []byte {
	n := r.Intn(201)
	alpha := []byte("0123456789     \n\n\r@@@ABCDEFHILMNOSTUWXY_abcxyz/.,-\t\xef\xbb\xbf\xff\x00")
	words := []string{"INDI", "FAM", "HUSB", "WIFE", "CHIL", "NAME", "DATE", "SEX", "NOTE", "SOUR", "HEAD", "TRLR", "@I1@", "@F1@", "0 ", "1 ", "2 ", "10 ", "\n0 ", "\n1 ", "\n2 ", "\r\n"}
	var b []byte
	for len(b) < n {
		if r.Chance(1, 3) {
			b = append(b, words[r.Intn(len(words))]...)
		} else if r.Chance(1, 20) {
			b = append(b, byte(r.Intn(256)))
		} else {
			b = append(b, alpha[r.Intn(len(alpha))])
		}
	}
	return b
}

func c03Run(c *fw.Ctx, i int) {
	adv := c03Adversarial()
	if i < len(adv) {
		c03One(c, adv[i], "adversarial")
		c03EntryPoints(c, adv[i], "adversarial")
		c03CLI(c, adv[i], "adversarial")
		return
	}
	i -= len(adv)
	r := c.R
	if i < c03Rand(c.Tier) {
		for k := 0; k < c03PerCase; k++ {
			data := c03RandomBytes(r)
			c03One(c, data, "random-bytes")
			if k%10 == 0 {
				c03EntryPoints(c, data, "random-bytes")
			}
			if k%25 == 0 {
				c03CLI(c, data, "random-bytes")
			}
		}
		return
	}
	for k := 0; k < c03PerCase; k++ {
		specs := gen.RandomForest(r, gen.ForestOpts{MaxRoots: 4, MaxKids: 4, MaxDepth: 4, MaxNodes: 30})
		if r.Bool() {
			specs = gen.Decodable(specs) // otherwise role tags may precede any family
		}
		data, _, _ := gen.RenderStream(r.Fork(), specs, gen.StreamOpts{MultiLine: r.Bool(), InvalidIndents: r.Bool(), Plain: r.Bool()})
		if r.Chance(3, 4) {
			data = gen.Mutate(r, data)
		}
		c03One(c, data, "mutated-file")
		if k%10 == 0 {
			c03EntryPoints(c, data, "mutated-file")
		}
		if k%25 == 0 {
			c03CLI(c, data, "mutated-file")
		}
	}
}

// C03Seeds is the corpus handed to the native fuzzer.
func C03Seeds() [][]byte { return c03Adversarial() }

var c03ExecsRe = regexp.MustCompile(`execs: (\d+)`)
var c03FailRe = regexp.MustCompile(`Failing input written to (\S+)`)
var c03SigRe = regexp.MustCompile(`C03SIG<([^>]*)> opt=(\d) (.*)`)

// c03Fuzz (thorough only): coverage-guided native fuzzing with the same oracle,
// bounded by an execution count, not by time.
func c03Fuzz(s *fw.Super, a *fw.Agg) {
	if s.Tier != "thorough" {
		return
	}
	execs := "2000000x"
	if v := os.Getenv("VERIF_FUZZ_EXECS"); v != "" {
		execs = v
	}
	var knownSigs []string
	ks, _ := fw.LoadKnown(s.Root, "C03")
	for _, k := range ks {
		if k.Signature != "" {
			knownSigs = append(knownSigs, k.Signature)
		}
	}
	cache := filepath.Join(s.Dir, "fuzzcache")
	args := []string{"test", "-tags", "verif", "-run", "^$", "-fuzz", "^FuzzDecode$", "-fuzztime", execs, "-timeout", "55m"}
	if mf := os.Getenv("VERIF_MODFILE"); mf != "" {
		args = append(args[:1], append([]string{mf}, args[1:]...)...)
	}
	args = append(args, "./fuzz", "-test.fuzzcachedir", cache)
	for round := 0; round < 5; round++ {
		cmd := exec.Command("go", args...)
		cmd.Dir = s.Root
		cmd.Env = append(os.Environ(), "VERIF_KNOWN_SIGS="+strings.Join(knownSigs, "\n"))
		out, err := cmd.CombinedOutput()
		text := string(out)
		if ms := c03ExecsRe.FindAllStringSubmatch(text, -1); len(ms) > 0 {
			var n int64
			fmt.Sscan(ms[len(ms)-1][1], &n)
			a.Counters["fuzz-executions"] += n
			a.Evaluations += n
		}
		if err == nil {
			return
		}
		m := c03FailRe.FindStringSubmatch(text)
		sm := c03SigRe.FindStringSubmatch(text)
		if m == nil || sm == nil {
			a.HarnessErrs = append(a.HarnessErrs, "native fuzzing failed without a classified finding: "+clip(text, 1500))
			return
		}
		crasher := filepath.Join(s.Root, "fuzz", m[1])
		body, _ := os.ReadFile(crasher)
		os.Remove(crasher)
		os.Remove(filepath.Dir(crasher))
		a.Violations = append(a.Violations, fw.Violation{Case: -1, Sig: sm[1], Detail: "found by native fuzzing: " + sm[3] + "\ncorpus entry:\n" + clip(string(body), 1500),
			Payload: map[string]interface{}{"go_fuzz_corpus_entry": string(body), "options_bits": sm[2], "note": "replay: save the corpus entry under fuzz/testdata/fuzz/FuzzDecode/x and run go test -tags verif -run FuzzDecode/x ./fuzz"}})
		// keep fuzzing for other signatures: treat this one as known for the next round
		knownSigs = append(knownSigs, sm[1])
	}
}
