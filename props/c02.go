package props

import (
	"bytes"
	"fmt"
	"strconv"
	"strings"

	"github.com/elliotchance/gedcom/v39"

	"verif/fw"
	"verif/gen"
)

// C02 — decoding attaches every line exactly where its level says.

func c02N(tier string) int {
	if tier == "thorough" {
		return 400000
	}
	return 10000
}

func init() {
	fw.Register(&fw.Prop{
		ID:    "C02",
		Title: "Decoding attaches every line exactly where its level says",
		Cases: func(tier string, seed uint64) int { return 2 * c02N(tier) },
		Run:   c02Run,
		Rule: "first half: constructive streams = a known random forest rendered with grammar-insignificant noise (LF/CR/CRLF mix, blank lines, BOM, 1-5 spaces after the level, xrefs at any level, values with '@', digits, non-UTF-8 bytes; over-deep levels when AllowInvalidIndents; junk continuation lines when AllowMultiLine), decoded under all 4 option combinations and compared with the forest; " +
			"second half: byte-mutated streams, accepted ones checked by model-free accounting (node count = non-blank lines, pre-order = file order, depth = level, each node = its line, pointer index = last root, encode/decode fixpoint). non-trivial = stream has a dedent of >= 2 levels or a sibling after a grandchild; distinct by hash of the bytes",
		Floors: func(a *fw.Agg, tier string) []string {
			var f []string
			for _, k := range []string{"constructive-decodes", "accepted-mutants", "big-dedents", "sibling-after-grandchild", "over-deep-lines", "junk-lines", "blank-lines"} {
				if a.Counters[k] < 50 {
					f = append(f, fmt.Sprintf("%s=%d < 50", k, a.Counters[k]))
				}
			}
			if a.ClassCount("root-records") < 10 {
				f = append(f, fmt.Sprintf("only %d sizes of streams with hundreds of root records", a.ClassCount("root-records")))
			}
			return f
		},
		Assumptions: []string{
			"edge white space in values is ASCII space/tab and the Unicode spaces NBSP, U+3000, U+2003, U+0085 (trimmed as strings.TrimSpace does); INDI/FAM lines are never followed by junk continuation lines (their value is not defined by the property)",
			"nothing is demanded of rejected inputs (C03)",
		},
	})
}

type c02Opt struct{ ml, ii bool }

var c02Opts = []c02Opt{{false, false}, {true, false}, {false, true}, {true, true}}

func (o c02Opt) String() string { return fmt.Sprintf("multiline=%v,invalidindents=%v", o.ml, o.ii) }

func c02Decode(data []byte, o c02Opt) (doc *gedcom.Document, err error, pi *fw.PanicInfo) {
	// under fw.Guard: a decode that is parked for ever is reported like a panic
	// (class "does not return") instead of stalling the worker
	var d1 *gedcom.Document
	var e1 error
	p, parked := fw.Guard(func() {
		d := gedcom.NewDecoder(bytes.NewReader(data))
		d.AllowMultiLine = o.ml
		d.AllowInvalidIndents = o.ii
		d1, e1 = d.Decode()
	})
	if parked != "" {
		return nil, nil, &fw.PanicInfo{Class: "decode does not return (every goroutine of the library is parked)", Frame: fw.InnermostRepoFrame(parked), Msg: "Decode never returns: every goroutine of the library is parked\n" + clip(parked, 1500), InLib: true}
	}
	return d1, e1, p
}

func c02Run(c *fw.Ctx, i int) {
	n := c02N(c.Tier)
	r := c.R
	fo := gen.ForestOpts{MaxRoots: 4, MaxKids: 4, MaxDepth: 5, MaxNodes: 50}
	if i%11 == 0 {
		fo.ChainDeep = r.Range(2, 30)
	}
	specs := gen.Decodable(gen.RandomForest(r, fo))
	if i < n && i%200 == 7 {
		// files with hundreds or thousands of root records (real files have tens
		// of thousands), sizes on both sides of powers of two and round numbers
		sizes := []int{255, 257, 511, 513, 515, 519, 600, 777, 1001, 1023, 1025, 1027, 2049, 3003, 4099}
		want := sizes[(i/200)%len(sizes)]
		small := gen.ForestOpts{MaxRoots: 3, MaxKids: 2, MaxDepth: 2, MaxNodes: 6}
		for len(specs) < want {
			specs = append(specs, gen.Decodable(gen.RandomForest(r, small))...)
		}
		specs = specs[:want]
		c.Count("streams-with-hundreds-of-root-records", 1)
		c.Class("root-records", fmt.Sprint(want))
	}
	if i < n {
		c02Constructive(c, specs)
		// several different streams decoded by 8 goroutines at once (buffers,
		// pools and tables shared between decoders): every tree must be what a
		// lone caller gets
		if i%20 == 0 {
			var streams [][]byte
			var opts []c02Opt
			for q := 0; q < 12; q++ {
				o := c02Opts[q%len(c02Opts)]
				data, _, _ := gen.RenderStream(r.Fork(), gen.Decodable(gen.RandomForest(r, fo)), gen.StreamOpts{MultiLine: o.ml, InvalidIndents: o.ii})
				streams, opts = append(streams, data), append(opts, o)
			}
			dec := func(q int) string {
				d := gedcom.NewDecoder(bytes.NewReader(streams[q]))
				d.AllowMultiLine, d.AllowInvalidIndents = opts[q].ml, opts[q].ii
				var out string
				if pi := fw.Try(func() {
					doc, err := d.Decode()
					if err != nil {
						out = "error: " + err.Error()
						return
					}
					out = fmt.Sprintf("bom=%v\n%s", doc.HasBOM, doc.String())
				}); pi != nil {
					out = "panic: " + pi.Msg
				}
				return out
			}
			c.Count("parallel-evaluations", int64(8*len(streams)))
			if q, par, alone := fw.ParallelThenAlone(8, len(streams), dec, dec); q >= 0 {
				c.Violation("parallel-evaluation-differs", fmt.Sprintf("a stream decoded while 7 other goroutines decode other streams:\n%s\nalone:\n%s", clip(par, 500), clip(alone, 500)), map[string]interface{}{"bytes": string(streams[q]), "options": opts[q].String()})
			}
		}
		return
	}
	c02Mutated(c, specs)
}

func c02Constructive(c *fw.Ctx, specs []*gen.Spec) {
	r := c.R
	for _, o := range c02Opts {
		data, expected, info := gen.RenderStream(r.Fork(), specs, gen.StreamOpts{MultiLine: o.ml, InvalidIndents: o.ii})
		c.Count("constructive-decodes", 1)
		c.Count("big-dedents", int64(info.BigDedents))
		c.Count("sibling-after-grandchild", int64(info.SibAfterGrand))
		c.Count("over-deep-lines", int64(info.OverDeep))
		c.Count("junk-lines", int64(info.Junk))
		c.Count("blank-lines", int64(info.Blank))
		for k, v := range info.Endings {
			c.Count("ending-"+k, int64(v))
		}
		if info.Nontrivial() {
			c.NontrivialStr(string(data))
		}
		payload := map[string]interface{}{"bytes": string(data), "options": o.String()}
		walk := "plain"
		switch {
		case info.OverDeep > 0:
			walk = "over-deep"
		case info.Junk > 0:
			walk = "continuation-lines"
		case info.BigDedents > 0:
			walk = "multi-level-dedent"
		case info.SibAfterGrand > 0:
			walk = "sibling-after-grandchild"
		}
		doc, err, pi := c02Decode(data, o)
		if pi != nil {
			c.Violation("constructive-stream-panics:"+o.String()+":"+walk, fmt.Sprintf("decoder panicked on a well-formed stream: %s\n%s", pi.Msg, clip(string(data), 500)), payload)
			continue
		}
		if err != nil {
			c.Violation("constructive-stream-rejected:"+o.String()+":"+walk, fmt.Sprintf("decoder rejected a well-formed stream: %v\n%s", err, clip(string(data), 500)), payload)
			continue
		}
		if doc.HasBOM != info.BOM {
			c.Violation("bom-flag:"+o.String(), fmt.Sprintf("HasBOM=%v but stream BOM=%v", doc.HasBOM, info.BOM), payload)
		}
		if f, m := gen.DiffSpec(expected, doc.Nodes(), ""); f != "" {
			c.Violation("tree-differs-"+f+":"+o.String()+":"+walk, fmt.Sprintf("decoded tree differs from the forest that was written: %s\n%s", m, clip(string(data), 700)), payload)
			continue
		}
		c02PointerIndex(c, doc, o, payload)
		c02Fixpoint(c, doc, o, payload)
		if c.WantSample("constructive") {
			c.Sample("constructive", map[string]interface{}{"bytes": clip(string(data), 300), "options": o.String(), "lines": info.Lines})
		}
	}
}

func c02PointerIndex(c *fw.Ctx, doc *gedcom.Document, o c02Opt, payload interface{}) {
	last := map[string]gedcom.Node{}
	for _, n := range doc.Nodes() {
		if p := n.Pointer(); p != "" {
			last[p] = n
		}
	}
	for p, n := range last {
		if got := doc.NodeByPointer(p); got != n {
			c.Violation("pointer-index:"+o.String(), fmt.Sprintf("NodeByPointer(%q) = %s, want the last root record carrying it: %s", p, gen.Describe(got), gen.Describe(n)), payload)
			return
		}
	}
}

// y = enc(dec(x)) must decode (same options) to an equal tree and re-encode to y.
func c02Fixpoint(c *fw.Ctx, doc *gedcom.Document, o c02Opt, payload interface{}) {
	y := doc.String()
	if strings.ContainsAny(strings.TrimRight(y, "\n"), "\r") {
		// values with embedded CR cannot exist after decoding
	}
	multilineValue := false
	var recordWithValue gedcom.Node
	var walk func(ns gedcom.Nodes)
	walk = func(ns gedcom.Nodes) {
		for _, n := range ns {
			if strings.ContainsAny(n.Value(), "\n\r") {
				multilineValue = true
			}
			if t := n.Tag().Tag(); (t == "INDI" || t == "FAM") && n.Value() != "" {
				recordWithValue = n
			}
			walk(n.Nodes())
		}
	}
	walk(doc.Nodes())
	if recordWithValue != nil {
		// individual and family record lines carry no value; the only way one
		// can get a value is AllowMultiLine absorbing a following unparsable line.
		c.Violation("record-node-with-value:"+fmt.Sprintf("multiline=%v", o.ml), fmt.Sprintf("%s has a value after decoding; it is lost again by the next encode/decode, so enc(dec(x)) is not a normal form", gen.Describe(recordWithValue)), payload)
		return
	}
	if multilineValue {
		// AllowMultiLine produced values with line breaks. The encoder writes
		// them as they are, which the same options read back as the same value.
		c.Count("fixpoint-checks-with-multiline-values", 1)
		if !o.ml {
			c.Violation("multiline-value-without-the-option:"+o.String(), "a decoded value holds a line break although AllowMultiLine is off", payload)
			return
		}
	}
	c.Count("fixpoint-checks", 1)
	doc2, err, pi := c02Decode([]byte(y), o)
	if pi != nil || err != nil {
		c.Violation("normal-form-rejected:"+o.String(), fmt.Sprintf("enc(dec(x)) is not accepted again: err=%v panic=%v\n%s", err, pi, clip(y, 500)), payload)
		return
	}
	if f, m := gen.Diff(doc.Nodes(), doc2.Nodes(), ""); f != "" {
		c.Violation("normal-form-tree-differs-"+f+":"+o.String(), "dec(enc(dec(x))) differs from dec(x): "+m, payload)
		return
	}
	if y2 := doc2.String(); y2 != y {
		c.Violation("normal-form-not-fixpoint:"+o.String(), fmt.Sprintf("enc(dec(y)) != y\n%s\n---\n%s", clip(y, 300), clip(y2, 300)), payload)
	}
}

// ---- model-free accounting on mutated (hostile) streams ----

type c02Line struct {
	level               int
	pointer, tag, value string
}

func isWord(b byte) bool {
	return b == '_' || (b >= '0' && b <= '9') || (b >= 'a' && b <= 'z') || (b >= 'A' && b <= 'Z')
}

// c02ParseLine reads 'level [@xref@ ]tag[ value]' by hand. ok=false if the
// line is not of that form (the accounting then does not apply).
func c02ParseLine(s string) (l c02Line, ok bool) {
	i := 0
	for i < len(s) && s[i] >= '0' && s[i] <= '9' {
		i++
	}
	if i == 0 || i > 9 {
		return l, false
	}
	l.level, _ = strconv.Atoi(s[:i])
	j := i
	for j < len(s) && s[j] == ' ' {
		j++
	}
	if j == i {
		return l, false
	}
	if j < len(s) && s[j] == '@' {
		k := strings.IndexByte(s[j+1:], '@')
		if k < 1 || j+1+k+1 >= len(s) || s[j+1+k+1] != ' ' {
			return l, false
		}
		l.pointer = s[j+1 : j+1+k]
		j = j + 1 + k + 2
	}
	t := j
	for t < len(s) && isWord(s[t]) {
		t++
	}
	if t == j {
		return l, false
	}
	l.tag = s[j:t]
	rest := s[t:]
	if strings.HasPrefix(rest, " ") {
		rest = rest[1:]
	} else if rest != "" {
		return l, false
	}
	l.value = strings.TrimSpace(rest)
	return l, true
}

func c02SplitLines(data []byte) []string {
	var out []string
	cur := []byte{}
	for _, b := range data {
		if b == '\n' || b == '\r' {
			if len(cur) > 0 {
				out = append(out, string(cur))
			}
			cur = cur[:0]
			continue
		}
		cur = append(cur, b)
	}
	if len(cur) > 0 {
		out = append(out, string(cur))
	}
	return out
}

func c02Mutated(c *fw.Ctx, specs []*gen.Spec) {
	r := c.R
	base, _, _ := gen.RenderStream(r.Fork(), specs, gen.StreamOpts{Plain: r.Chance(1, 2)})
	data := gen.Mutate(r, base)
	for _, o := range c02Opts {
		c.Count("mutant-decodes", 1)
		doc, err, pi := c02Decode(data, o)
		if pi != nil || err != nil || doc == nil {
			c.Count("rejected-mutants", 1)
			continue
		}
		c.Count("accepted-mutants", 1)
		payload := map[string]interface{}{"bytes": string(data), "options": o.String()}
		c02PointerIndex(c, doc, o, payload)
		c02Fixpoint(c, doc, o, payload)
		if o.ml {
			continue // unparsable lines are absorbed into values: the line accounting below does not apply
		}
		body := data
		if bytes.HasPrefix(body, []byte("\xef\xbb\xbf")) {
			body = body[3:]
		}
		lines := c02SplitLines(body)
		// pre-order walk with depths
		type nd struct {
			n     gedcom.Node
			depth int
		}
		var pre []nd
		var walk func(ns gedcom.Nodes, d int)
		walk = func(ns gedcom.Nodes, d int) {
			for _, n := range ns {
				pre = append(pre, nd{n, d})
				walk(n.Nodes(), d+1)
			}
		}
		walk(doc.Nodes(), 0)
		c.NontrivialStr("m:" + string(data))
		if len(pre) != len(lines) {
			c.Violation("line-accounting-count:"+o.String(), fmt.Sprintf("%d non-blank lines but %d nodes\n%s", len(lines), len(pre), clip(string(data), 600)), payload)
			continue
		}
		prevDepth := -1
		for k, ln := range lines {
			pl, ok := c02ParseLine(ln)
			if !ok {
				c.Count("accepted-line-outside-hand-grammar", 1)
				break
			}
			got := pre[k]
			wantDepth := pl.level
			if o.ii && wantDepth > prevDepth+1 {
				wantDepth = prevDepth + 1
			}
			wantValue := pl.value
			if pl.tag == "INDI" || pl.tag == "FAM" {
				wantValue = ""
			}
			if got.n.Tag().Tag() != pl.tag || got.n.Pointer() != pl.pointer || got.n.Value() != wantValue {
				c.Violation("line-accounting-content:"+o.String(), fmt.Sprintf("line %d %q became %s (pre-order position %d)", k+1, ln, gen.Describe(got.n), k), payload)
				break
			}
			if got.depth != wantDepth {
				c.Violation("line-accounting-depth:"+o.String(), fmt.Sprintf("line %d %q (level %d) is at depth %d, want %d\n%s", k+1, ln, pl.level, got.depth, wantDepth, clip(string(data), 600)), payload)
				break
			}
			prevDepth = got.depth
		}
		if c.WantSample("accepted-mutant") {
			c.Sample("accepted-mutant", map[string]interface{}{"bytes": clip(string(data), 300), "options": o.String()})
		}
	}
}
