package props

import (
	"bytes"
	"fmt"
	"sort"
	"strings"

	"github.com/elliotchance/gedcom/v39"
	"github.com/elliotchance/gedcom/v39/html"
	"github.com/elliotchance/gedcom/v39/html/core"
	"github.com/elliotchance/gedcom/v39/q"

	"verif/fw"
	"verif/gen"
)

// C13 — reads never modify a document and views reflect every edit.
// An online monitor shadows a live document through a history of operations:
// after EVERY step the derived views of the live document are compared with
// the same views of a fresh decode of its current text, edit post-conditions
// are checked by node identity, and every read-only operation is bracketed by
// snapshots of the text and of the view battery.

type c13Mon struct {
	c        *fw.Ctx
	doc      *gedcom.Document
	other    *gedcom.Document // a second document for Compare/Merge
	pointers map[string]bool  // every pointer ever used
	tags     map[string]bool  // every tag ever used
	nextPtr  int
	history  []string
	failed   bool
	deleted  gedcom.Nodes // root records removed by Document.DeleteNode (may be added again)
	checks   int
}

func c13Walk(ns gedcom.Nodes, path string, f func(n gedcom.Node, path string)) {
	for i, n := range ns {
		p := fmt.Sprintf("%s/%d", path, i)
		f(n, p)
		c13Walk(n.Nodes(), p, f)
	}
}

func c13Paths(doc *gedcom.Document) map[gedcom.Node]string {
	m := map[gedcom.Node]string{}
	c13Walk(doc.Nodes(), "", func(n gedcom.Node, p string) {
		if _, dup := m[n]; !dup {
			m[n] = p
		}
	})
	return m
}

func c13Desc(n gedcom.Node, pm map[gedcom.Node]string) string {
	if gedcom.IsNil(n) {
		return "<nil>"
	}
	p, ok := pm[n]
	if !ok {
		return "NOT-IN-DOCUMENT:" + n.GEDCOMLine(-1)
	}
	return p + ":" + n.GEDCOMLine(-1)
}

// c13Views evaluates the battery on a document. Keys are position based so
// that the live document and a fresh decode of its text can be compared.
func c13Views(doc *gedcom.Document, pointers, tags map[string]bool) map[string]string {
	return c13ViewsOrder(doc, pointers, tags, false)
}

// c13ViewsOrder: with rev the accessors of each individual are asked in the
// opposite order. What a view returns must not depend on which other view was
// read first (a cache that one accessor fills for another with different rules).
func c13ViewsOrder(doc *gedcom.Document, pointers, tags map[string]bool, rev bool) map[string]string {
	start := 0
	if rev {
		start = 1
	}
	return c13ViewsFrom(doc, pointers, tags, start)
}

// c13ViewsFrom: the accessors of each individual are asked starting with the
// start-th one (cyclically), so that each of them is the first to be asked of
// a fresh document at some point.
func c13ViewsFrom(doc *gedcom.Document, pointers, tags map[string]bool, start int) map[string]string {
	rev := false
	pm := c13Paths(doc)
	v := map[string]string{}
	list := func(ns interface{}) string {
		var out []string
		for _, n := range gedcom.NewNodes(ns) {
			out = append(out, c13Desc(n, pm))
		}
		return strings.Join(out, " | ")
	}
	var tagList []string
	for t := range tags {
		tagList = append(tagList, t)
	}
	sort.Strings(tagList)
	c13Walk(doc.Nodes(), "", func(n gedcom.Node, p string) {
		// tags of the node's present children plus every tag an edit has touched so far
		local := map[string]bool{}
		for _, k := range n.Nodes() {
			local[k.Tag().Tag()] = true
		}
		ts := append([]string{}, tagList...)
		for t := range local {
			if !tags[t] {
				ts = append(ts, t)
			}
		}
		sort.Strings(ts)
		for _, t := range ts {
			tag := gedcom.TagFromString(t)
			gedcom.NodesWithTag(n, tag) // the cache only stores from the second lookup on
			if r := gedcom.NodesWithTag(n, tag); len(r) > 0 {
				v["NodesWithTag:"+p+":"+t] = list(r)
			}
		}
	})
	v["Individuals"] = list(doc.Individuals())
	v["Families"] = list(doc.Families())
	var ps []string
	for p := range pointers {
		ps = append(ps, p)
	}
	sort.Strings(ps)
	for _, p := range ps {
		v["NodeByPointer:"+p] = c13Desc(doc.NodeByPointer(p), pm)
	}
	inds := doc.Individuals()
	for _, ind := range inds {
		k := pm[ind]
		ind := ind
		reads := []func(){
			func() { v["Individual.Names:"+k] = list(ind.Names()) },
			func() { v["Individual.AllEvents:"+k] = list(ind.AllEvents()) },
			func() { v["Individual.Births:"+k] = list(ind.Births()) },
			func() { v["Individual.Deaths:"+k] = list(ind.Deaths()) },
			func() { v["Individual.Families:"+k] = list(ind.Families()) },
			func() { v["Individual.Spouses:"+k] = list(ind.Spouses()) },
			func() { v["Individual.Parents:"+k] = list(ind.Parents()) },
			func() { v["Individual.Children:"+k] = list(ind.Children()) },
			func() {
				ids := ind.UniqueIdentifiers().Strings()
				sort.Strings(ids)
				v["Individual.UniqueIdentifiers:"+k] = strings.Join(ids, ",")
			},
		}
		for x := range reads {
			if rev {
				reads[len(reads)-1-x]()
			} else {
				reads[(x+start)%len(reads)]()
			}
		}
		for _, sp := range ind.Spouses() {
			v["Individual.FamilyWithSpouse:"+k+":"+pm[sp]] = c13Desc(ind.FamilyWithSpouse(sp), pm)
		}
	}
	for _, fam := range doc.Families() {
		k := pm[fam]
		v["Family.Husband:"+k] = c13Desc(fam.Husband(), pm)
		v["Family.Wife:"+k] = c13Desc(fam.Wife(), pm)
		if h := fam.Husband(); h != nil {
			v["Family.Husband.Individual:"+k] = c13Desc(h.Individual(), pm)
		}
		if w := fam.Wife(); w != nil {
			v["Family.Wife.Individual:"+k] = c13Desc(w.Individual(), pm)
		}
		v["Family.Children:"+k] = list(fam.Children())
		var has []string
		for _, ind := range inds {
			if fam.HasChild(ind) {
				has = append(has, pm[ind])
			}
		}
		v["Family.HasChild:"+k] = strings.Join(has, ",")
	}
	return v
}

func c13ViewName(key string) string {
	if i := strings.IndexByte(key, ':'); i >= 0 {
		return key[:i]
	}
	return key
}

func (m *c13Mon) payload() interface{} {
	return map[string]interface{}{"history": append([]string{}, m.history...), "text_now": m.doc.String()}
}

func (m *c13Mon) violation(sig, detail string) {
	if m.failed {
		return
	}
	m.failed = true
	m.c.Violation(sig, detail+"\nhistory: "+strings.Join(m.history, " ; "), m.payload())
}

// check compares the live views with a fresh decode. cause = the operation just performed.
func (m *c13Mon) check(cause string) {
	if m.failed {
		return
	}
	m.c.Count("freshness-checks", 1)
	text := m.doc.String()
	fresh, err := gedcom.NewDocumentFromString(text)
	if err != nil {
		m.violation("undecodable-text:"+cause, fmt.Sprintf("after %s the document's text no longer decodes: %v", cause, err))
		return
	}
	// a different accessor is the first to be asked after the edit each time
	// (what the first one finds out about the edit must reach the others)
	live := c13ViewsFrom(m.doc, m.pointers, m.tags, (m.checks*4+8)%9)
	m.checks++
	want := c13ViewsFrom(fresh, m.pointers, m.tags, m.checks%9) // a different accessor goes first each time
	keys := map[string]bool{}
	for k := range live {
		keys[k] = true
	}
	for k := range want {
		keys[k] = true
	}
	var ks []string
	for k := range keys {
		ks = append(ks, k)
	}
	sort.Strings(ks)
	for _, k := range ks {
		if live[k] != want[k] {
			class := "stale"
			if strings.Contains(live[k], "NOT-IN-DOCUMENT") {
				class = "leaked-removed"
			}
			m.violation(class+":"+c13ViewName(k)+":"+cause, fmt.Sprintf("after %s the view %s of the live document is\n  %s\nbut a fresh decode of its text gives\n  %s", cause, k, live[k], want[k]))
			return
		}
	}
	m.c.Count("views-compared", int64(len(ks)))
}

// read brackets a read-only operation with snapshots.
func (m *c13Mon) read(name string, f func()) {
	if m.failed {
		return
	}
	m.history = append(m.history, name)
	m.c.Count("op:"+name, 1)
	m.c.Count("reads", 1)
	before := m.doc.String()
	otherBefore := ""
	if m.other != nil {
		otherBefore = m.other.String()
	}
	vb := c13Views(m.doc, m.pointers, m.tags)
	if pi := fw.Try(f); pi != nil {
		m.violation("read-panics:"+name+":"+pi.Class, fmt.Sprintf("read-only operation %s panicked: %s", name, pi.Msg))
		return
	}
	if after := m.doc.String(); after != before {
		m.violation("impure:text:"+name, fmt.Sprintf("read-only operation %s changed the document's GEDCOM text\nbefore:\n%s\nafter:\n%s", name, clip(before, 1500), clip(after, 1500)))
		return
	}
	if m.other != nil && m.other.String() != otherBefore {
		m.violation("impure:other-document-text:"+name, fmt.Sprintf("read-only operation %s changed the text of the second document it was given", name))
		return
	}
	va := c13Views(m.doc, m.pointers, m.tags)
	for k, b := range vb {
		if va[k] != b {
			m.violation("impure:"+c13ViewName(k)+":"+name, fmt.Sprintf("read-only operation %s changed the view %s\nbefore: %s\nafter:  %s", name, k, b, va[k]))
			return
		}
	}
	for k := range va {
		if _, ok := vb[k]; !ok {
			m.violation("impure:"+c13ViewName(k)+":"+name, fmt.Sprintf("read-only operation %s made the view %s appear: %s", name, k, va[k]))
			return
		}
	}
	m.check(name)
}

func c13Kind(name string) string {
	if strings.HasPrefix(name, "quiet-burst[") {
		return "quiet-burst"
	}
	if i := strings.IndexByte(name, '('); i > 0 && !strings.HasSuffix(name, "(nil)") && !strings.HasSuffix(name, "(i)") {
		return name[:i]
	}
	return name
}

func (m *c13Mon) edit(name string, f func() string) {
	if m.failed {
		return
	}
	m.history = append(m.history, name)
	m.c.Count("op:"+c13Kind(name), 1)
	m.c.Count("edits", 1)
	var post string
	if pi := fw.Try(func() { post = f() }); pi != nil {
		m.violation("edit-panics:"+c13Kind(name)+":"+pi.Class, fmt.Sprintf("edit %s panicked: %s", name, pi.Msg))
		return
	}
	if post != "" {
		m.violation("post-condition:"+c13Kind(name)+":"+firstWords(post, 6), name+": "+post)
		return
	}
	m.check(c13Kind(name))
}

func firstWords(s string, n int) string {
	w := strings.Fields(s)
	if len(w) > n {
		w = w[:n]
	}
	return strings.Join(w, "-")
}

func c13Has(ns interface{}, n gedcom.Node) bool {
	for _, x := range gedcom.NewNodes(ns) {
		if x == n {
			return true
		}
	}
	return false
}

func (m *c13Mon) freshPtr(prefix string) string {
	m.nextPtr++
	p := fmt.Sprintf("%s%d", prefix, 900+m.nextPtr)
	m.pointers[p] = true
	return p
}

// plainNodes: nodes that can take arbitrary children (not records' structural lines)
func (m *c13Mon) allNodes() gedcom.Nodes {
	var out gedcom.Nodes
	c13Walk(m.doc.Nodes(), "", func(n gedcom.Node, p string) { out = append(out, n) })
	return out
}

// ---- the operation alphabet ----

type c13Op func(m *c13Mon, r *fw.Rand)

func c13ReadViews(m *c13Mon, r *fw.Rand) {
	m.read("read-all-views", func() { c13Views(m.doc, m.pointers, m.tags) })
}

func c13Warnings(m *c13Mon, r *fw.Rand) {
	m.read("Warnings", func() {
		for _, w := range m.doc.Warnings() {
			_ = w.String()
		}
	})
}

func c13String(m *c13Mon, r *fw.Rand) {
	m.read("String", func() { _ = m.doc.String() })
}

func c13AddChildNode(m *c13Mon, r *fw.Rand) {
	all := m.allNodes()
	if len(all) == 0 {
		return
	}
	p := all[r.Intn(len(all))]
	tag := []string{"NOTE", "DATE", "_X", "BIRT", "NAME", "PLAC", "SOUR"}[r.Intn(7)]
	val := []string{"added", "3 Sep 1943", "x y", "", "New /Name/", "Somewhere", "@S1@"}[r.Intn(7)]
	m.edit("AddNode("+p.Tag().Tag()+","+tag+")", func() string {
		// warm the cache for that tag first: the edit must invalidate it
		gedcom.NodesWithTag(p, gedcom.TagFromString(tag))
		gedcom.NodesWithTag(p, gedcom.TagFromString(tag))
		c := gedcom.NewNode(gedcom.TagFromString(tag), val, "")
		p.AddNode(c)
		m.tags[tag] = true
		if !c13Has(p.Nodes(), c) {
			return "after AddNode the child is not in Nodes()"
		}
		if !c13Has(gedcom.NodesWithTag(p, gedcom.TagFromString(tag)), c) {
			return fmt.Sprintf("missed-added: after %s.AddNode(%s) the new child is not in NodesWithTag(parent, %s)", p.Tag().Tag(), tag, tag)
		}
		return ""
	})
}

func c13DeleteChildNode(m *c13Mon, r *fw.Rand) {
	var cands []gedcom.Node
	for _, n := range m.allNodes() {
		if len(n.Nodes()) > 0 {
			cands = append(cands, n)
		}
	}
	if len(cands) == 0 {
		return
	}
	p := cands[r.Intn(len(cands))]
	kids := p.Nodes()
	c := kids[r.Intn(len(kids))]
	m.tags[c.Tag().Tag()] = true
	m.edit("DeleteNode("+p.Tag().Tag()+","+c.Tag().Tag()+")", func() string {
		gedcom.NodesWithTag(p, c.Tag())
		gedcom.NodesWithTag(p, c.Tag())
		if !p.DeleteNode(c) {
			return "DeleteNode of an existing child returned false"
		}
		if c13Has(p.Nodes(), c) {
			return "leaked-removed: deleted child still in Nodes()"
		}
		if c13Has(gedcom.NodesWithTag(p, c.Tag()), c) {
			return fmt.Sprintf("leaked-removed: after %s.DeleteNode(%s) the removed child is still returned by NodesWithTag", p.Tag().Tag(), c.Tag().Tag())
		}
		return ""
	})
}

func c13SetNodes(m *c13Mon, r *fw.Rand) {
	all := m.allNodes()
	if len(all) == 0 {
		return
	}
	p := all[r.Intn(len(all))]
	m.edit("SetNodes("+p.Tag().Tag()+")", func() string {
		old := p.Nodes()
		for _, k := range old {
			m.tags[k.Tag().Tag()] = true
		}
		for _, k := range old {
			gedcom.NodesWithTag(p, k.Tag())
			gedcom.NodesWithTag(p, k.Tag())
		}
		var nl gedcom.Nodes
		for i, k := range old {
			if i%2 == 0 {
				nl = append(nl, k)
			}
		}
		nn := gedcom.NewNode(gedcom.TagFromString("_SET"), "v", "")
		nl = append(nl, nn)
		m.tags["_SET"] = true
		p.SetNodes(nl)
		got := p.Nodes()
		if len(got) != len(nl) {
			return "after SetNodes the children are not the given list"
		}
		for i := range nl {
			if got[i] != nl[i] {
				return "after SetNodes the children are not the given list"
			}
		}
		for i, k := range old {
			if i%2 == 1 && c13Has(gedcom.NodesWithTag(p, k.Tag()), k) {
				return fmt.Sprintf("leaked-removed: after %s.SetNodes a dropped %s child is still returned by NodesWithTag", p.Tag().Tag(), k.Tag().Tag())
			}
		}
		return ""
	})
}

func c13AddIndividual(m *c13Mon, r *fw.Rand) {
	ptr := m.freshPtr("I")
	// now and then a record is added under a pointer that is taken (files with
	// a repeated xref exist) and one of the two is removed again: the pointer
	// leads to the one that is left, as in a fresh decode of the text
	if inds := m.doc.Individuals(); len(inds) > 0 && r.Chance(1, 4) {
		old := inds[r.Intn(len(inds))]
		dropOld := r.Bool()
		m.edit("AddIndividual(taken pointer)+DeleteNode(one of the two)", func() string {
			m.doc.Families()
			_ = old.Spouses()
			twin := m.doc.AddIndividual(old.Pointer(), gedcom.NewNode(gedcom.TagName, "Second /Record/", ""))
			gone, left := gedcom.Node(twin), gedcom.Node(old)
			if dropOld {
				gone, left = old, twin
			}
			if !m.doc.DeleteNode(gone) {
				return "Document.DeleteNode of a root returned false"
			}
			if got := m.doc.NodeByPointer(old.Pointer()); got != left {
				return fmt.Sprintf("stale: two records shared the pointer %s and one was deleted: NodeByPointer returns %s, not the record that is left", old.Pointer(), gen.Describe(got))
			}
			return ""
		})
		return
	}
	m.edit("AddIndividual", func() string {
		var kids gedcom.Nodes
		if r.Bool() {
			kids = append(kids, gedcom.NewNode(gedcom.TagName, "Added /Person/", ""))
		}
		ind := m.doc.AddIndividual(ptr, kids...)
		if !c13Has(m.doc.Individuals(), ind) || !c13Has(m.doc.Nodes(), ind) {
			return "missed-added: new individual not in Individuals()/Nodes()"
		}
		if m.doc.NodeByPointer(ptr) != ind {
			return "missed-added: NodeByPointer does not find the new individual"
		}
		return ""
	})
}

func c13AddFamilyWithSpouses(m *c13Mon, r *fw.Rand) {
	inds := m.doc.Individuals()
	ptr := m.freshPtr("F")
	m.edit("AddFamilyWithHusbandAndWife", func() string {
		var h, w *gedcom.IndividualNode
		if len(inds) > 0 {
			h = inds[r.Intn(len(inds))]
		}
		if len(inds) > 1 {
			w = inds[r.Intn(len(inds))]
			if w == h {
				w = nil
			}
		}
		var fam *gedcom.FamilyNode
		if h == nil {
			fam = m.doc.AddFamily(ptr)
		} else {
			fam = m.doc.AddFamilyWithHusbandAndWife(ptr, h, w)
		}
		m.tags["FAMS"], m.tags["HUSB"], m.tags["WIFE"] = true, true, true
		if !c13Has(m.doc.Families(), fam) || m.doc.NodeByPointer(ptr) != fam {
			return "missed-added: new family not in Families()/NodeByPointer"
		}
		if h != nil {
			if fam.Husband() == nil || fam.Husband().Individual() != h {
				return "after SetHusband(i) Husband().Individual() is not i"
			}
			if !c13Has(h.Families(), fam) {
				return "missed-added: after SetHusband(i) the family is not in i.Families()"
			}
		}
		if w != nil {
			if fam.Wife() == nil || fam.Wife().Individual() != w {
				return "after SetWife(i) Wife().Individual() is not i"
			}
			if !c13Has(w.Families(), fam) {
				return "missed-added: after SetWife(i) the family is not in i.Families()"
			}
			if h != nil && !c13Has(h.Spouses(), w) {
				return "missed-added: after SetHusband/SetWife the wife is not among the husband's Spouses()"
			}
		}
		return ""
	})
}

func c13ClearHusband(m *c13Mon, r *fw.Rand) {
	fams := m.doc.Families()
	if len(fams) == 0 {
		return
	}
	fam := fams[r.Intn(len(fams))]
	wife := r.Bool()
	name := "SetHusband(nil)"
	if wife {
		name = "SetWife(nil)"
	}
	m.edit(name, func() string {
		var before *gedcom.IndividualNode
		if wife {
			before = fam.Wife().Individual()
			fam.SetWife(nil)
			if before != nil && fam.Wife() != nil {
				return "after SetWife(nil) Wife() is not nil"
			}
		} else {
			before = fam.Husband().Individual()
			fam.SetHusband(nil)
			if before != nil && fam.Husband() != nil {
				return "after SetHusband(nil) Husband() is not nil"
			}
		}
		return ""
	})
}

func c13DeleteRoot(m *c13Mon, r *fw.Rand) {
	roots := m.doc.Nodes()
	if len(roots) == 0 {
		return
	}
	n := roots[r.Intn(len(roots))]
	m.edit("Document.DeleteNode("+n.Tag().Tag()+")", func() string {
		m.doc.Families()
		ptr := n.Pointer()
		if !m.doc.DeleteNode(n) {
			return "Document.DeleteNode of a root returned false"
		}
		if c13Has(m.doc.Nodes(), n) || c13Has(m.doc.Individuals(), n) {
			return "leaked-removed: deleted root still in Nodes()/Individuals()"
		}
		if c13Has(m.doc.Families(), n) {
			return "leaked-removed: deleted family record is still returned by Families()"
		}
		if ptr != "" && m.doc.NodeByPointer(ptr) == n {
			return "leaked-removed: deleted record is still returned by NodeByPointer"
		}
		m.deleted = append(m.deleted, n)
		return ""
	})
}

// further edits (random histories only)

func c13SetSpouse(m *c13Mon, r *fw.Rand) {
	fams, inds := m.doc.Families(), m.doc.Individuals()
	if len(fams) == 0 || len(inds) == 0 {
		return
	}
	fam, ind := fams[r.Intn(len(fams))], inds[r.Intn(len(inds))]
	wife := r.Bool()
	name := "SetHusband(i)"
	if wife {
		name = "SetWife(i)"
	}
	m.edit(name, func() string {
		ind.Families()
		ind.Spouses()
		m.tags["FAMS"], m.tags["HUSB"], m.tags["WIFE"] = true, true, true
		if wife {
			fam.SetWife(ind)
			if fam.Wife() == nil || fam.Wife().Individual() != ind {
				return "after SetWife(i) Wife().Individual() is not i"
			}
		} else {
			fam.SetHusband(ind)
			if fam.Husband() == nil || fam.Husband().Individual() != ind {
				return "after SetHusband(i) Husband().Individual() is not i"
			}
		}
		if !c13Has(ind.Families(), fam) {
			return "missed-added: after " + name + " the family is not in i.Families()"
		}
		return ""
	})
}

func c13AddChild(m *c13Mon, r *fw.Rand) {
	fams, inds := m.doc.Families(), m.doc.Individuals()
	if len(fams) == 0 || len(inds) == 0 {
		return
	}
	fam, ind := fams[r.Intn(len(fams))], inds[r.Intn(len(inds))]
	m.edit("AddChild", func() string {
		ind.Parents()
		fam.Children()
		m.tags["FAMC"], m.tags["CHIL"] = true, true
		cn := fam.AddChild(ind)
		if !c13Has(fam.Children(), cn) || cn.Individual() != ind {
			return "missed-added: after AddChild(i) i is not among Children()"
		}
		if !fam.HasChild(ind) {
			return "missed-added: after AddChild(i) HasChild(i) is false"
		}
		if !c13Has(ind.Parents(), fam) {
			return "missed-added: after AddChild(i) the family is not in i.Parents()"
		}
		return ""
	})
}

func c13IndividualSetters(m *c13Mon, r *fw.Rand) {
	inds := m.doc.Individuals()
	if len(inds) == 0 {
		return
	}
	ind := inds[r.Intn(len(inds))]
	switch r.Intn(4) {
	case 0:
		m.edit("AddName", func() string {
			ind.Names()
			ind.Names()
			added := "Extra /Name/"
			if before := ind.Names(); len(before) > 0 && r.Bool() {
				added = before[0].Value() // the name the person already has, once more
			}
			ind.AddName(added)
			ns := ind.Names()
			if len(ns) == 0 || ns[len(ns)-1].Value() != added {
				return "missed-added: after AddName the name is not the last of Names()"
			}
			// now and then something is only recorded under the repeated name
			if r.Bool() {
				m.tags["NOTE"] = true
				ns[len(ns)-1].AddNode(gedcom.NewNode(gedcom.TagNote, fmt.Sprintf("only under name %d", len(ns)), ""))
			}
			return ""
		})
	case 1:
		m.edit("AddBirthDate", func() string {
			ind.Births()
			ind.Births()
			m.tags["BIRT"], m.tags["DATE"] = true, true
			ind.AddBirthDate("1 Jan 1801")
			d, _ := ind.Birth()
			if len(ind.Births()) == 0 || d == nil {
				return "missed-added: after AddBirthDate there is no birth (date)"
			}
			return ""
		})
	case 2:
		m.edit("AddDeathDate", func() string {
			ind.Deaths()
			ind.Deaths()
			m.tags["DEAT"], m.tags["DATE"] = true, true
			ind.AddDeathDate("2 Feb 1872")
			if len(ind.Deaths()) == 0 {
				return "missed-added: after AddDeathDate there is no death"
			}
			return ""
		})
	case 3:
		m.edit("SetSex", func() string {
			ind.Sex()
			m.tags["SEX"] = true
			ind.SetSex("F")
			if ind.Sex() == nil || ind.Sex().Value() != "F" {
				return "after SetSex(F) Sex() is not F"
			}
			return ""
		})
	}
}

func c13DeleteWithTag(m *c13Mon, r *fw.Rand) {
	var cands []gedcom.Node
	for _, n := range m.allNodes() {
		if len(n.Nodes()) > 0 {
			cands = append(cands, n)
		}
	}
	if len(cands) == 0 {
		return
	}
	p := cands[r.Intn(len(cands))]
	tag := p.Nodes()[r.Intn(len(p.Nodes()))].Tag()
	m.tags[tag.Tag()] = true
	m.edit("DeleteNodesWithTag("+p.Tag().Tag()+","+tag.Tag()+")", func() string {
		gedcom.NodesWithTag(p, tag)
		gedcom.NodesWithTag(p, tag)
		gedcom.DeleteNodesWithTag(p, tag)
		for _, k := range p.Nodes() {
			if k.Tag().Is(tag) {
				return fmt.Sprintf("after DeleteNodesWithTag(%s) a %s child is still there", tag.Tag(), tag.Tag())
			}
		}
		if len(gedcom.NodesWithTag(p, tag)) != 0 {
			return "leaked-removed: after DeleteNodesWithTag NodesWithTag still returns nodes"
		}
		return ""
	})
}

func c13AddRoot(m *c13Mon, r *fw.Rand) {
	// either a new record, or a record that Document.DeleteNode removed
	// earlier is put back (with everything that is still inside it)
	if len(m.deleted) > 0 && r.Bool() {
		k := r.Intn(len(m.deleted))
		n := m.deleted[k]
		m.deleted = append(m.deleted[:k:k], m.deleted[k+1:]...)
		m.edit("Document.AddNode(deleted "+n.Tag().Tag()+" again)", func() string {
			m.doc.Families()
			for _, i := range m.doc.Individuals() {
				i.Families()
				i.Spouses()
			}
			m.doc.AddNode(n)
			if !c13Has(m.doc.Nodes(), n) || (n.Pointer() != "" && m.doc.NodeByPointer(n.Pointer()) != n) {
				return "missed-added: the record that was added again is not in Nodes()/NodeByPointer"
			}
			switch x := n.(type) {
			case *gedcom.IndividualNode:
				if !c13Has(m.doc.Individuals(), n) {
					return "missed-added: the individual that was added again is not in Individuals()"
				}
			case *gedcom.FamilyNode:
				if !c13Has(m.doc.Families(), n) {
					return "missed-added: the family that was added again is not in Families()"
				}
				if i := x.Husband().Individual(); i != nil && c13Has(m.doc.Individuals(), i) && !c13Has(i.Families(), x) {
					return "missed-added: the family that was added again is not in its husband's Families()"
				}
			}
			return ""
		})
		return
	}
	ptr := m.freshPtr("N")
	m.edit("Document.AddNode", func() string {
		n := gedcom.NewNode(gedcom.TagNote, "a note record", ptr)
		m.doc.AddNode(n)
		if !c13Has(m.doc.Nodes(), n) || m.doc.NodeByPointer(ptr) != n {
			return "missed-added: new root record not in Nodes()/NodeByPointer"
		}
		return ""
	})
}

// c13QuietBurst: two to four edits in a row with NO read in between - the
// monitor itself reads every view after every step, which re-fills the caches
// and can hide an edit that leaves a cache half-updated for the next edit.
// The candidates are collected before the burst; the views are only checked
// after it.
func c13QuietBurst(m *c13Mon, r *fw.Rand) {
	inds, fams, roots := m.doc.Individuals(), m.doc.Families(), m.doc.Nodes()
	type step struct {
		name string
		do   func()
	}
	var steps []step
	n := r.Range(2, 4)
	for k := 0; k < n; k++ {
		switch r.Intn(7) {
		case 0:
			if len(roots) > 0 {
				x := roots[r.Intn(len(roots))]
				steps = append(steps, step{"Document.DeleteNode(" + x.Tag().Tag() + ")", func() {
					if m.doc.DeleteNode(x) {
						m.deleted = append(m.deleted, x)
					}
				}})
			}
		case 1:
			ptr := m.freshPtr("F")
			var h, w *gedcom.IndividualNode
			if len(inds) > 0 {
				h, w = inds[r.Intn(len(inds))], inds[r.Intn(len(inds))]
			}
			m.tags["FAMS"], m.tags["HUSB"], m.tags["WIFE"] = true, true, true
			steps = append(steps, step{"AddFamilyWithHusbandAndWife", func() { m.doc.AddFamilyWithHusbandAndWife(ptr, h, w) }})
		case 2:
			ptr := m.freshPtr("I")
			m.tags["NAME"] = true
			steps = append(steps, step{"AddIndividual", func() { m.doc.AddIndividual(ptr, gedcom.NewNameNode("Quiet /Burst/")) }})
		case 3:
			if len(fams) > 0 && len(inds) > 0 {
				f, i := fams[r.Intn(len(fams))], inds[r.Intn(len(inds))]
				m.tags["HUSB"], m.tags["WIFE"] = true, true
				if r.Bool() {
					steps = append(steps, step{"SetHusband(i)", func() { f.SetHusband(i) }})
				} else {
					steps = append(steps, step{"SetWife(nil)", func() { f.SetWife(nil) }})
				}
			}
		case 4:
			if len(fams) > 0 && len(inds) > 0 {
				f, i := fams[r.Intn(len(fams))], inds[r.Intn(len(inds))]
				m.tags["CHIL"], m.tags["FAMC"] = true, true
				steps = append(steps, step{"AddChild", func() { f.AddChild(i) }})
			}
		case 5:
			ptr := m.freshPtr("F")
			steps = append(steps, step{"AddFamily", func() { m.doc.AddFamily(ptr) }})
		case 6:
			if len(m.deleted) > 0 {
				k := r.Intn(len(m.deleted))
				x := m.deleted[k]
				m.deleted = append(m.deleted[:k:k], m.deleted[k+1:]...)
				steps = append(steps, step{"Document.AddNode(deleted " + x.Tag().Tag() + " again)", func() { m.doc.AddNode(x) }})
			}
		}
	}
	if len(steps) < 2 {
		return
	}
	var names []string
	for _, st := range steps {
		names = append(names, st.name)
	}
	name := "quiet-burst[" + strings.Join(names, ", ") + "]"
	m.edit(name, func() string {
		for _, st := range steps {
			st.do()
		}
		return ""
	})
}

// further reads (random histories only)

type c13Recorder struct{ files int }

func (w *c13Recorder) WriteFile(f *core.File) error {
	var buf bytes.Buffer
	_, err := f.Component.WriteHTMLTo(&buf)
	w.files++
	return err
}

func c13OtherReads(m *c13Mon, r *fw.Rand) {
	inds := m.doc.Individuals()
	switch r.Intn(8) {
	case 0:
		m.read("Individuals.Compare", func() {
			o := gedcom.NewIndividualNodesCompareOptions()
			_ = m.doc.Individuals().Compare(m.other.Individuals(), o)
		})
	case 1:
		if len(inds) >= 2 {
			a, b := inds[r.Intn(len(inds))], inds[r.Intn(len(inds))]
			m.read("SurroundingSimilarity", func() {
				_ = a.SurroundingSimilarity(b, gedcom.NewSimilarityOptions(), true).WeightedSimilarity()
			})
		}
	case 2:
		if len(inds) >= 2 {
			a, b := inds[r.Intn(len(inds))], inds[r.Intn(len(inds))]
			m.read("CompareNodes+Sort", func() {
				d := gedcom.CompareNodes(a, b)
				_ = d.String()
				_ = d.IsDeepEqual()
				d.Sort()
			})
		}
	case 3:
		roots := m.doc.Nodes()
		if len(roots) > 0 {
			n := roots[r.Intn(len(roots))]
			m.read("DeepCopy/Filter/Flatten-into-another-document", func() {
				target := gedcom.NewDocument()
				_ = gedcom.DeepCopy(n, target)
				_ = gedcom.Filter(n, target, gedcom.OfficialTagFilter())
				// every filter function, applied to the live node itself
				for _, fn := range []gedcom.FilterFunction{gedcom.RemoveDuplicateNamesFilter(), gedcom.RemoveEmptyDeathTagFilter(), gedcom.OnlyVitalsTagFilter(), gedcom.SimpleNameFilter(gedcom.NameFormatWritten),
					gedcom.WhitelistTagFilter(gedcom.TagName, gedcom.TagBirth, gedcom.TagDate), gedcom.BlacklistTagFilter(gedcom.TagNote, gedcom.TagFamilySpouse)} {
					_ = gedcom.Filter(n, gedcom.NewDocument(), fn)
				}
				_ = (&gedcom.FilterFlags{NoDuplicateNames: true, OnlyOfficial: true, NameFormat: "written"}).Filter(n, gedcom.NewDocument())
				for _, ind := range m.doc.Individuals() {
					if len(ind.Names()) > 1 {
						_ = gedcom.Filter(ind, gedcom.NewDocument(), gedcom.RemoveDuplicateNamesFilter())
					}
				}
				_ = gedcom.Flatten(target, n)
			})
		}
	case 4:
		m.read("Publish", func() {
			opts := &html.PublishShowOptions{ShowIndividuals: true, ShowPlaces: true, ShowFamilies: true, ShowSurnames: true, ShowSources: true, ShowStatistics: true, LivingVisibility: html.LivingVisibilityShow}
			if r.Bool() {
				opts.LivingVisibility = html.LivingVisibilityPlaceholder
			}
			_ = html.NewPublisher(m.doc, opts).Publish(&c13Recorder{}, 1)
		})
	case 5:
		qs := []string{"Combine(.Nodes | First(1), .Nodes | Last(1))", "Combine(.Families | First(1), .Families)", "Combine(.Individuals | First(2), .Individuals | Last(1)) | .Pointer", ".Individuals | First(2) | .Spouses", ".Families | Last(1) | .Children", ".Nodes | First(1) | .Nodes | Last(2)", ".Individuals | Only(.Pointer != \"\") | First(1) | .Parents", "X are .Individuals; Combine(X | First(1), X) | .Pointer", ".Individuals | .Name | .String", ".Families | .Husband | .Individual | .Pointer", ".Individuals | .Spouses | Length", ".Individuals | NodesWithTagPath(\"BIRT\", \"DATE\") | .String", ".Individuals | Only(.Pointer = \"I1\") | .Families", ".Nodes | Length", ".Individuals | { n: .Name | .String, p: .Parents | Length }"}[r.Intn(15)]
		m.read("query", func() {
			if e, err := q.NewParser().ParseString(qs); err == nil {
				_, _ = e.Evaluate([]*gedcom.Document{m.doc})
			}
		})
	case 6:
		m.read("MergeDocumentsAndIndividuals", func() {
			_, _ = gedcom.MergeDocumentsAndIndividuals(m.doc, m.other, gedcom.EqualityMergeFunction, gedcom.NewIndividualNodesCompareOptions())
		})
	case 7:
		m.read("Places/Sources", func() {
			_ = m.doc.Places()
			_ = m.doc.Sources()
		})
	}
}

var c13Alphabet = []c13Op{c13ReadViews, c13Warnings, c13AddChildNode, c13DeleteChildNode, c13SetNodes, c13AddIndividual, c13AddFamilyWithSpouses, c13ClearHusband, c13DeleteRoot}
var c13AlphabetNames = []string{"read-all", "warnings", "add-child-node", "delete-child-node", "set-nodes", "add-individual", "add-family+spouses", "clear-husband/wife", "delete-root-record"}

var c13AllOps = append(append([]c13Op{}, c13Alphabet...), c13String, c13SetSpouse, c13AddChild, c13IndividualSetters, c13DeleteWithTag, c13AddRoot, c13OtherReads, c13OtherReads, c13QuietBurst, c13QuietBurst)

const c13FixedDoc = "0 HEAD\n1 CHAR UTF-8\n0 @I1@ INDI\n1 NAME John /Smith/\n1 SEX M\n1 BIRT\n2 DATE 3 Sep 1843\n1 FAMS @F1@\n0 @I2@ INDI\n1 NAME Mary /Jones/\n1 SEX F\n1 FAMS @F1@\n0 @I3@ INDI\n1 NAME Sam /Smith/\n1 BIRT\n2 DATE 5 May 1870\n1 FAMC @F1@\n0 @F1@ FAM\n1 HUSB @I1@\n1 WIFE @I2@\n1 CHIL @I3@\n1 MARR\n2 DATE 1 Jan 1868\n0 TRLR\n"

func c13MaxLen(tier string) int {
	if tier == "thorough" {
		return 5
	}
	return 4
}

func c13ExhaustiveCount(tier string) int {
	n, p := 0, 1
	for l := 1; l <= c13MaxLen(tier); l++ {
		p *= len(c13Alphabet)
		n += p
	}
	return n
}

const c13PerCase = 27

func c13Random(tier string) int {
	if tier == "thorough" {
		return 6000
	}
	return 300
}

func init() {
	fw.Register(&fw.Prop{
		ID:    "C13",
		Title: "Reads never modify a document and views reflect every edit",
		Cases: func(tier string, seed uint64) int {
			return (c13ExhaustiveCount(tier)+c13PerCase-1)/c13PerCase + c13Random(tier)
		},
		Run:   c13Run,
		Batch: func(tier string, n int) int { return 8 },
		Rule: "operation histories on a live document, monitored after EVERY step: (1) ~25 kinds of derived views (NodesWithTag for every node x every tag ever used, Individuals, Families, NodeByPointer for every pointer ever used, per individual Names/AllEvents/Births/Deaths/Families/Spouses/Parents/Children/FamilyWithSpouse, per family Husband/Wife/their individuals/Children/HasChild) compared with the same views of a fresh decode of the current text; (2) edit post-conditions by node identity; (3) text + view snapshots around every read-only operation. " +
			"exhaustive: all sequences up to length 4 (quick) / 5 (thorough) over a 9-operation alphabet on a fixed 3-person document; random: histories of 30..200 steps over 16 edit and 12 read operations on generated family graphs of 0..25 people (reads warm the caches before the edits). non-trivial = history with at least one edit after a read; distinct by operation sequence + document",
		Floors: func(a *fw.Agg, tier string) []string {
			var f []string
			for _, k := range []string{"freshness-checks", "views-compared", "reads", "edits", "edit-after-warm-read"} {
				if a.Counters[k] < 100 {
					f = append(f, fmt.Sprintf("%s=%d < 100", k, a.Counters[k]))
				}
			}
			for _, k := range []string{"read-all-views", "Warnings", "String", "Individuals.Compare", "SurroundingSimilarity", "CompareNodes+Sort", "DeepCopy/Filter/Flatten-into-another-document", "Publish", "query", "MergeDocumentsAndIndividuals", "AddIndividual", "AddFamilyWithHusbandAndWife", "AddChild", "Document.AddNode", "AddName"} {
				if a.Counters["op:"+k] < 20 {
					f = append(f, fmt.Sprintf("operation %s executed %d times < 20", k, a.Counters["op:"+k]))
				}
			}
			return f
		},
		Assumptions: []string{
			"fresh pointers only (no duplicate xrefs); generated values are GEDCOM-legal so the live text always decodes",
			"the decoder/encoder pair is trusted here (C01/C02 check it)",
		},
	})
}

func c13NewMon(c *fw.Ctx, text, otherText string) *c13Mon {
	doc, err := gedcom.NewDocumentFromString(text)
	if err != nil {
		c.HarnessError("C13 start document does not decode: " + err.Error())
		return nil
	}
	other, _ := gedcom.NewDocumentFromString(otherText)
	m := &c13Mon{c: c, doc: doc, other: other, pointers: map[string]bool{}, tags: map[string]bool{}}
	for _, t := range []string{"NAME", "BIRT", "HUSB", "WIFE", "CHIL", "FAMS", "FAMC"} {
		m.tags[t] = true
	}
	c13Walk(doc.Nodes(), "", func(n gedcom.Node, p string) {
		if n.Pointer() != "" {
			m.pointers[n.Pointer()] = true
		}
	})
	return m
}

func c13Run(c *fw.Ctx, i int) {
	nEx := c13ExhaustiveCount(c.Tier)
	nBlocks := (nEx + c13PerCase - 1) / c13PerCase
	otherText := "0 @J1@ INDI\n1 NAME John /Smith/\n1 BIRT\n2 DATE 3 Sep 1843\n0 @J2@ INDI\n1 NAME Other /Person/\n"
	if i < nBlocks {
		for idx := i * c13PerCase; idx < (i+1)*c13PerCase && idx < nEx; idx++ {
			// decode idx -> sequence
			l, p, x := 1, len(c13Alphabet), idx
			for x >= p {
				x -= p
				p *= len(c13Alphabet)
				l++
			}
			seq := make([]int, l)
			for k := l - 1; k >= 0; k-- {
				seq[k] = x % len(c13Alphabet)
				x /= len(c13Alphabet)
			}
			m := c13NewMon(c, c13FixedDoc, otherText)
			if m == nil {
				return
			}
			r := fw.NewRand(uint64(idx)) // targets are a function of the sequence only
			sawRead := false
			var names []string
			for _, s := range seq {
				names = append(names, c13AlphabetNames[s])
				if s <= 1 {
					sawRead = true
				} else if sawRead {
					c.Count("edit-after-warm-read", 1)
				}
				c13Alphabet[s](m, r)
			}
			c.Count("histories", 1)
			c.NontrivialStr("ex:" + strings.Join(names, ","))
			if c.WantSample("exhaustive") && l == c13MaxLen(c.Tier) {
				c.Sample("exhaustive", map[string]interface{}{"operations": names, "steps_monitored": len(m.history)})
			}
		}
		return
	}
	r := c.R
	people := r.Range(0, 10)
	if r.Chance(1, 6) {
		people = r.Range(11, 25)
	}
	g := gen.NewFG(r, gen.FGOpts{People: people, MultiNames: true, WithSources: true, NoLiving: true})
	g2 := gen.NewFG(r, gen.FGOpts{People: r.Range(0, 8), PtrPrefix: "J"})
	m := c13NewMon(c, g.Text(), g2.Text())
	if m == nil {
		return
	}
	steps := r.Range(30, 200)
	if len(g.People) > 10 {
		steps = r.Range(30, 60)
	}
	c13ReadViews(m, r)
	for s := 0; s < steps && !m.failed; s++ {
		c13AllOps[r.Intn(len(c13AllOps))](m, r)
		c.Count("edit-after-warm-read", 1)
	}
	c.Count("histories", 1)
	c.NontrivialStr("rnd:" + strings.Join(m.history, ","))
	if c.WantSample("random") {
		h := m.history
		if len(h) > 12 {
			h = h[:12]
		}
		c.Sample("random", map[string]interface{}{"people": len(g.People), "steps": len(m.history), "first_operations": h})
	}
}
