package props

import (
	"fmt"
	"sort"
	"strings"

	"github.com/elliotchance/gedcom/v39"

	"verif/fw"
	"verif/gen"
)

// C09 — merging nodes loses nothing, invents nothing and copies.

func c09N(tier string) int {
	if tier == "thorough" {
		return 2000000
	}
	return 100000
}

func init() {
	fw.Register(&fw.Prop{
		ID:    "C09",
		Title: "Merging nodes loses nothing, invents nothing and copies",
		Cases: func(tier string, seed uint64) int { return c09N(tier) },
		Run:   c09Run,
		Rule: "same-root tree pairs (MergeNodes) and node-list pairs (MergeNodeSlices with the equality merge function and with instrumented always-/never-merge functions) over every node kind: overlapping and disjoint children, nested overlap, duplicate siblings, pruned copies (one side a leaf), empty/nil lists, generated individuals. " +
			"monitors: embedding checker both ways (every input node under a representative of its parent; every result node stems from an input node), merge-function event log (each element merged at most once, a merged node never merged again, |result| = |l|+|r|-merges within [max,sum]), self-merge adds nothing when no two siblings are equal, node-identity disjointness, purity snapshots, aliasing probe (mutate the whole result, re-snapshot inputs, merge again and compare). non-trivial = at least one child merged and one appended; distinct by text of the pair",
		Floors: func(a *fw.Agg, tier string) []string {
			var f []string
			for _, k := range []string{"node-merges", "slice-merges", "self-merges-checked", "merge-fn-calls", "merge-fn-successes", "alias-probes", "empty-side"} {
				if a.Counters[k] < 50 {
					f = append(f, fmt.Sprintf("%s=%d < 50", k, a.Counters[k]))
				}
			}
			return f
		},
		Assumptions: []string{
			"representation is by Equals in either direction (kind-specific, possibly fuzzy equality is what the merge itself uses)",
			"merges go into a fresh document; merging into one of the inputs' own documents is C13's subject",
		},
	})
}

// c09Rep: y can stand for x. Kind-specific equality in either direction, or the
// same line (tag, value, pointer): kinds such as EVEN compare their whole
// subtree in Equals, and a merged EVEN legitimately holds more than its inputs.
func c09Rep(y, x gedcom.Node) bool {
	if c08EqEither(y, x) {
		return true
	}
	return !gedcom.IsNil(y) && !gedcom.IsNil(x) && y.Tag().Is(x.Tag()) && y.Value() == x.Value() && y.Pointer() == x.Pointer()
}

// c09Cover: every child of x (input) has a representative among the children of y (result), recursively.
func c09Cover(y, x gedcom.Node, budget *int) (bool, gedcom.Node) {
	for _, ch := range x.Nodes() {
		*budget--
		if *budget < 0 {
			return true, nil
		}
		found := false
		var miss gedcom.Node
		for _, cy := range y.Nodes() {
			if c09Rep(cy, ch) {
				ok, m := c09Cover(cy, ch, budget)
				if ok {
					found = true
					break
				}
				if miss == nil {
					miss = m
				}
			}
		}
		if !found {
			if miss != nil {
				return false, miss
			}
			return false, ch
		}
	}
	return true, nil
}

// c09Stems: every child of result node y stems from a child of one of the input nodes that y represents.
func c09Stems(y gedcom.Node, reps gedcom.Nodes) gedcom.Node {
	for _, cy := range y.Nodes() {
		var next gedcom.Nodes
		for _, x := range reps {
			for _, cx := range x.Nodes() {
				if c09Rep(cy, cx) {
					next = append(next, cx)
				}
			}
		}
		if len(next) == 0 {
			return cy
		}
		if bad := c09Stems(cy, next); bad != nil {
			return bad
		}
	}
	return nil
}

func c09NoEqualSiblings(n gedcom.Node) bool {
	kids := n.Nodes()
	for i := range kids {
		for j := range kids {
			if i != j && kids[i].Equals(kids[j]) {
				return false
			}
		}
	}
	for _, k := range kids {
		if !c09NoEqualSiblings(k) {
			return false
		}
	}
	return true
}

func c09MutateAll(n gedcom.Node, depth int) {
	for _, k := range n.Nodes() {
		c09MutateAll(k, depth+1)
	}
	n.AddNode(gedcom.NewNode(gedcom.TagFromString("_MUT"), fmt.Sprint(depth), ""))
	if kids := n.Nodes(); len(kids) > 1 {
		n.DeleteNode(kids[0])
	}
}

func c09Texts(ns gedcom.Nodes) []string {
	var o []string
	for _, n := range ns {
		o = append(o, c07Text(n))
	}
	return o
}

func c09Same(a, b []string) bool {
	if len(a) != len(b) {
		return false
	}
	for i := range a {
		if a[i] != b[i] {
			return false
		}
	}
	return true
}

func c09Prune(r *fw.Rand, s *gen.Spec) {
	for _, k := range s.Kids {
		if len(k.Kids) > 0 && r.Chance(1, 3) {
			k.Kids = nil
		} else {
			c09Prune(r, k)
		}
	}
}

func c09Pair(r *fw.Rand, mode int) (*gen.Spec, *gen.Spec) {
	a := c07Tree(r, r.Range(3, 20))
	var b *gen.Spec
	switch mode % 5 {
	case 0: // independent, sharing some subtrees
		b = c07Tree(r, r.Range(3, 20))
		for b.Tag != a.Tag {
			b = c07Tree(r, r.Range(3, 20))
		}
		for _, k := range a.Kids {
			if r.Bool() {
				b.Kids = append(b.Kids, cloneSpec(k))
			}
		}
	case 1: // copy with edits 1..3 levels deep
		b = cloneSpec(a)
		var all []*gen.Spec
		var walk func(x *gen.Spec)
		walk = func(x *gen.Spec) {
			all = append(all, x)
			for _, k := range x.Kids {
				walk(k)
			}
		}
		walk(b)
		for k := 0; k < 3; k++ {
			t := all[r.Intn(len(all))]
			t.Kids = append(t.Kids, &gen.Spec{Tag: c07Plain[r.Intn(len(c07Plain))], Value: fmt.Sprint("new", k)})
		}
	case 2: // pruned copy on the right
		b = cloneSpec(a)
		c09Prune(r, b)
	case 3: // pruned copy on the left
		b = cloneSpec(a)
		c09Prune(r, a)
	case 4: // identical
		b = cloneSpec(a)
	}
	if a.Tag == "FAM" && r.Bool() {
		// role nodes that exist on one side only (they cannot be created without their family)
		b.Kids = append(b.Kids, &gen.Spec{Tag: "CHIL", Value: "@I77@", Kids: []*gen.Spec{{Tag: "NOTE", Value: "right only"}}})
		if r.Bool() {
			a.Kids = append(a.Kids, &gen.Spec{Tag: "WIFE", Value: "@I88@"})
		}
	}
	return a, b
}

func c09Run(c *fw.Ctx, i int) {
	if i%2 == 0 {
		c09Nodes(c, i/2)
	} else {
		c09Slices(c, i/2)
	}
}

func c09Nodes(c *fw.Ctx, k int) {
	r := c.R
	as, bs := c09Pair(r, k)
	L, _ := c07Node(as)
	R, _ := c07Node(bs)
	if L == nil || R == nil {
		c.HarnessError("C09: pair does not decode")
		return
	}
	if k%9 == 8 {
		R = L // the very same object on both sides
	}
	if k%13 == 5 {
		// one node object (with lines below it) attached at two places of an
		// input, as a program does that hangs one citation under two facts:
		// both occurrences are nodes of the input
		side := L
		if k%2 == 0 {
			side = R
		}
		var shared, host gedcom.Node
		all := c07All(side)
		for _, x := range all[1:] {
			if _, plain := x.(*gedcom.SimpleNode); plain && len(x.Nodes()) > 0 && shared == nil {
				shared = x
			}
		}
		if shared != nil {
			inside := map[gedcom.Node]bool{}
			c07Identity(shared, inside)
			for _, x := range all {
				if _, plain := x.(*gedcom.SimpleNode); plain && !inside[x] && c07Parent(side, shared) != x {
					host = x
				}
			}
		}
		if shared != nil && host != nil {
			host.AddNode(shared)
			c.Count("inputs-with-one-node-object-at-two-places", 1)
		}
	}
	lt, rt := c07Text(L), c07Text(R)
	payload := map[string]interface{}{"left": lt, "right": rt}
	c.Count("node-merges", 1)
	res, err := gedcom.MergeNodes(L, R, gedcom.NewDocument())
	if err != nil || gedcom.IsNil(res) {
		c.Violation("merge-failed:MergeNodes", fmt.Sprintf("same-tag nodes could not be merged: %v", err), payload)
		return
	}
	first := c07Text(res)
	if a, b := c07Text(L), c07Text(R); a != lt || b != rt {
		c.Violation("inputs-modified:MergeNodes", fmt.Sprintf("merge changed an input:\nleft before:\n%s\nleft after:\n%s\nright before:\n%s\nright after:\n%s", lt, a, rt, b), payload)
		return
	}
	budget := 200000
	for _, side := range []struct {
		name string
		n    gedcom.Node
	}{{"left", L}, {"right", R}} {
		if ok, miss := c09Cover(res, side.n, &budget); !ok {
			c.Violation("lost-node:MergeNodes:"+side.name, fmt.Sprintf("%s input node %s has no equal node in the result under a representative of its parent\nresult:\n%s", side.name, gen.Describe(miss), first), payload)
		}
	}
	if budget < 0 {
		c.Inconclusive("embedding-search-budget")
	}
	if bad := c09Stems(res, gedcom.Nodes{L, R}); bad != nil {
		c.Violation("invented-node:MergeNodes", fmt.Sprintf("result node %s does not stem from any input node\nresult:\n%s", gen.Describe(bad), first), payload)
	}
	// shape: merged and appended children
	merged, appended := 0, 0
	for _, ch := range R.Nodes() {
		m := false
		for _, lc := range L.Nodes() {
			if lc.Equals(ch) {
				m = true
			}
		}
		if m {
			merged++
		} else {
			appended++
		}
	}
	if merged > 0 && appended > 0 {
		c.NontrivialStr(lt + "\x00" + rt)
	}
	// self merge
	if lt == rt && c09NoEqualSiblings(L) {
		c.Count("self-merges-checked", 1)
		if a, b := c08CountNodes(res), c08CountNodes(L); a != b {
			c.Violation("self-merge-grows:MergeNodes", fmt.Sprintf("merging a tree with itself (no two siblings equal) gives %d nodes from %d\n%s\n---\n%s", a, b, lt, first), payload)
		}
	}
	// identity
	ids := map[gedcom.Node]bool{}
	c07Identity(L, ids)
	c07Identity(R, ids)
	for _, x := range c07All(res) {
		if ids[x] {
			where := "left"
			rids := map[gedcom.Node]bool{}
			c07Identity(R, rids)
			if rids[x] {
				where = "right"
			}
			c.Violation("shared-node:MergeNodes:"+where, fmt.Sprintf("result contains the %s input's own node object %s", where, gen.Describe(x)), payload)
			break
		}
	}
	// aliasing probe
	c.Count("alias-probes", 1)
	c09MutateAll(res, 0)
	if a, b := c07Text(L), c07Text(R); a != lt || b != rt {
		which, before, after := "left", lt, a
		if a == lt {
			which, before, after = "right", rt, b
		}
		c.Violation("alias:mutating-result-changed-input:MergeNodes:"+which, fmt.Sprintf("after mutating the merge result the %s input reads differently:\nbefore:\n%s\nafter:\n%s", which, before, after), payload)
		return
	}
	res2, err2 := gedcom.MergeNodes(L, R, gedcom.NewDocument())
	if err2 != nil || c07Text(res2) != first {
		c.Violation("second-merge-differs:MergeNodes", fmt.Sprintf("merging the same inputs again gives a different result (an input was rewritten by the first merge?)\nfirst:\n%s\nsecond:\n%s", first, c07Text(res2)), payload)
	}
	// chained: what an earlier merge or copy returned is the left input of the
	// next merge (three files merged one after the other). It is an input like
	// any other: never modified, never part of the result.
	if err2 == nil && !gedcom.IsNil(res2) {
		prev, how := res2, "the result of an earlier merge"
		switch k % 3 {
		case 1:
			prev, how = gedcom.DeepCopy(L, gedcom.NewDocument()), "a DeepCopy"
		case 2:
			prev, how = gedcom.Filter(L, gedcom.NewDocument(), gedcom.WhitelistTagFilter()), "a Filter copy"
			if gedcom.IsNil(prev) {
				prev, how = res2, "the result of an earlier merge"
			}
		}
		third := cloneSpec(bs)
		third.Kids = append(third.Kids, &gen.Spec{Tag: "_V3RD", Value: "only in the third tree", Kids: []*gen.Spec{{Tag: "_V3RDK", Value: "k"}}})
		if T, _ := c07Node(third); T != nil && T.Tag().Is(prev.Tag()) {
			c.Count("chained-merges", 1)
			pt, tt := c07Text(prev), c07Text(T)
			pl := map[string]interface{}{"left": pt, "right": tt, "left_is": how}
			res3, err3 := gedcom.MergeNodes(prev, T, gedcom.NewDocument())
			if err3 != nil || gedcom.IsNil(res3) {
				c.Violation("merge-failed:MergeNodes:chained", fmt.Sprintf("%s could not be merged with a third tree: %v", how, err3), pl)
				return
			}
			if a, b := c07Text(prev), c07Text(T); a != pt || b != tt {
				c.Violation("inputs-modified:MergeNodes:chained", fmt.Sprintf("the left input of the merge was %s; the merge changed an input:\nleft before:\n%s\nleft after:\n%s", how, pt, a), pl)
				return
			}
			pids := map[gedcom.Node]bool{}
			c07Identity(prev, pids)
			c07Identity(T, pids)
			for _, x := range c07All(res3) {
				if pids[x] {
					c.Violation("shared-node:MergeNodes:chained", fmt.Sprintf("the left input of the merge was %s; the result contains an input's own node object %s", how, gen.Describe(x)), pl)
					return
				}
			}
			c09MutateAll(res3, 0)
			if a, b := c07Text(prev), c07Text(T); a != pt || b != tt {
				c.Violation("alias:mutating-result-changed-input:MergeNodes:chained", fmt.Sprintf("the left input of the merge was %s; after mutating the result an input reads differently", how), pl)
				return
			}
		}
	}
	if c.WantSample("nodes") {
		c.Sample("nodes", map[string]interface{}{"left": clip(lt, 250), "right": clip(rt, 250), "merged": clip(first, 350)})
	}
}

// c09Canon: canonical text of a tree that ignores the order of children; ok is
// false when the tree holds a node whose equality the harness does not model
// (anything but plain nodes, places, and an EVEN or RESI root), or a DATE.
func c09Canon(n gedcom.Node, root bool) (string, bool) {
	switch n.(type) {
	case *gedcom.SimpleNode, *gedcom.PlaceNode:
	case *gedcom.EventNode, *gedcom.ResidenceNode:
		if !root {
			return "", false
		}
	default:
		return "", false
	}
	if n.Tag().Is(gedcom.TagDate) {
		return "", false
	}
	var kids []string
	for _, k := range n.Nodes() {
		ks, ok := c09Canon(k, false)
		if !ok {
			return "", false
		}
		kids = append(kids, ks)
	}
	sort.Strings(kids)
	return n.Tag().Tag() + "\x00" + n.Value() + "\x00" + n.Pointer() + "{" + strings.Join(kids, "\x01") + "}", true
}

// c09RefEqual decides Equals(a, b) independently of the library where it can:
// plain nodes compare their own line; an undated EVEN compares value and
// children (order ignored); an undated RESI compares its places.
func c09RefEqual(a, b gedcom.Node) (equal, known bool) {
	ca, oka := c09Canon(a, true)
	cb, okb := c09Canon(b, true)
	if !oka || !okb {
		return false, false
	}
	switch a.(type) {
	case *gedcom.SimpleNode, *gedcom.PlaceNode:
		return a.Tag().Is(b.Tag()) && a.Value() == b.Value() && a.Pointer() == b.Pointer(), true
	case *gedcom.EventNode:
		if _, ok := b.(*gedcom.EventNode); !ok {
			return false, true
		}
		// value and children; the pointer of the event itself is not compared
		return a.Value() == b.Value() && ca[strings.Index(ca, "{"):] == cb[strings.Index(cb, "{"):], true
	case *gedcom.ResidenceNode:
		if _, ok := b.(*gedcom.ResidenceNode); !ok {
			return false, true
		}
		var pa, pb []string
		for _, k := range a.Nodes() {
			if k.Tag().Is(gedcom.TagPlace) {
				s, _ := c09Canon(k, false)
				pa = append(pa, s)
			}
		}
		for _, k := range b.Nodes() {
			if k.Tag().Is(gedcom.TagPlace) {
				s, _ := c09Canon(k, false)
				pb = append(pb, s)
			}
		}
		sort.Strings(pa)
		sort.Strings(pb)
		return strings.Join(pa, "\x02") == strings.Join(pb, "\x02"), true
	}
	return false, false
}

type c09Event struct {
	left, right, merged gedcom.Node
}

func c09Slices(c *fw.Ctx, k int) {
	r := c.R
	mk := func() gedcom.Nodes {
		n := r.Intn(5)
		if r.Chance(1, 6) {
			n = 0
		}
		var ns gedcom.Nodes
		for q := 0; q < n; q++ {
			s := c07Tree(r, r.Range(2, 10))
			x, _ := c07Node(s)
			if x != nil {
				ns = append(ns, x)
			}
		}
		return ns
	}
	left, right := mk(), mk()
	// pinned shapes (equality merge function): elements whose kind-specific
	// equality looks at their children - an undated EVEN, an undated RESI -
	// with duplicate children on the left and a different child on the right.
	// They are NOT equal and must not be merged into one element.
	if k%3 == 0 && k/3 < 4 {
		pin := func(text string) gedcom.Node {
			d, err := gedcom.NewDocumentFromString(text)
			if err != nil || len(d.Nodes()) == 0 {
				return nil
			}
			return d.Nodes()[0]
		}
		var l, rr gedcom.Node
		switch k / 3 {
		case 0:
			l, rr = pin("0 EVEN v\n1 _X a\n1 _X a\n"), pin("0 EVEN v\n1 _X a\n1 _X b\n")
		case 1:
			l, rr = pin("0 EVEN v\n1 _X a\n1 _X b\n"), pin("0 EVEN v\n1 _X a\n1 _X a\n")
		case 2:
			l, rr = pin("0 RESI\n1 PLAC p\n1 PLAC p\n"), pin("0 RESI\n1 PLAC p\n1 PLAC q\n")
		case 3:
			l, rr = pin("0 EVEN v\n1 NOTE n\n2 _X a\n2 _X a\n"), pin("0 EVEN v\n1 NOTE n\n2 _X a\n2 _X c\n")
		}
		if l != nil && rr != nil {
			left, right = append(gedcom.Nodes{l}, left...), append(gedcom.Nodes{rr}, right...)
		}
	}
	// overlap: copies of left elements (edited or pruned) on the right, duplicates too
	for _, l := range left {
		if r.Bool() {
			cp := c07Copy(l)
			if r.Bool() {
				cp.AddNode(gedcom.NewNode(gedcom.TagFromString("_ADD"), "x", ""))
			}
			right = append(right, cp)
			if r.Chance(1, 5) {
				right = append(right, c07Copy(l))
			}
		}
	}
	if r.Chance(1, 10) {
		left = nil
	}
	if len(left) == 0 || len(right) == 0 {
		c.Count("empty-side", 1)
	}
	fnKind := []string{"equality", "always", "never"}[k%3]
	lt, rt := c09Texts(left), c09Texts(right)
	payload := map[string]interface{}{"left": lt, "right": rt, "merge_function": fnKind}
	var log []c09Event
	fn := func(l, rr gedcom.Node, d *gedcom.Document) gedcom.Node {
		var m gedcom.Node
		switch fnKind {
		case "equality":
			m = gedcom.EqualityMergeFunction(l, rr, d)
		case "always":
			x, err := gedcom.MergeNodes(l, rr, d)
			if err == nil {
				m = x
			}
		}
		c.Count("merge-fn-calls", 1)
		if !gedcom.IsNil(m) {
			c.Count("merge-fn-successes", 1)
		}
		// Where equality can be decided without the library (date-free trees of
		// plain nodes, undated EVEN/RESI over such trees) the equality merge
		// function must only merge what is equal.
		if fnKind == "equality" && !gedcom.IsNil(m) {
			if eq, known := c09RefEqual(l, rr); known {
				c.Count("merges-checked-against-reference-equality", 1)
				if !eq {
					c.Violation("merged-unequal-nodes:MergeNodeSlices:"+l.Tag().Tag(), fmt.Sprintf("the equality merge function merged two elements that are not equal:\n%s---\n%s", c07Text(l), c07Text(rr)), payload)
				}
			}
		}
		log = append(log, c09Event{l, rr, m})
		return m
	}
	c.Count("slice-merges", 1)
	res := gedcom.MergeNodeSlices(left, right, gedcom.NewDocument(), fn)
	first := c09Texts(res)
	if !c09Same(c09Texts(left), lt) || !c09Same(c09Texts(right), rt) {
		c.Violation("inputs-modified:MergeNodeSlices", "merge changed an input list", payload)
		return
	}
	// offline check of the event log
	successes := 0
	usedL, usedR, mergedSet := map[gedcom.Node]bool{}, map[gedcom.Node]bool{}, map[gedcom.Node]bool{}
	for _, e := range log {
		if mergedSet[e.left] || mergedSet[e.right] {
			c.Violation("merged-node-merged-again:MergeNodeSlices", fmt.Sprintf("a node produced by a merge was offered to the merge function again: %s", gen.Describe(e.left)), payload)
			break
		}
		if gedcom.IsNil(e.merged) {
			continue
		}
		successes++
		if usedL[e.left] || usedR[e.right] {
			c.Violation("element-merged-twice:MergeNodeSlices", fmt.Sprintf("an input element took part in two successful merges: %s / %s", gen.Describe(e.left), gen.Describe(e.right)), payload)
			break
		}
		usedL[e.left], usedR[e.right] = true, true
		mergedSet[e.merged] = true
	}
	max := len(left)
	if len(right) > max {
		max = len(right)
	}
	if len(res) < max || len(res) > len(left)+len(right) {
		c.Violation("length-bounds:MergeNodeSlices", fmt.Sprintf("|left|=%d |right|=%d but |result|=%d", len(left), len(right), len(res)), payload)
	}
	if len(res) != len(left)+len(right)-successes {
		c.Violation("length-accounting:MergeNodeSlices", fmt.Sprintf("|left|=%d |right|=%d merges=%d but |result|=%d", len(left), len(right), successes, len(res)), payload)
	}
	if fnKind == "never" && len(res) != len(left)+len(right) {
		c.Violation("never-merge-length:MergeNodeSlices", "with a function that never merges the result must hold every element", payload)
	}
	// nothing lost: every input element is represented by a result element (embedding); nothing invented
	budget := 200000
	for _, side := range []struct {
		name string
		ns   gedcom.Nodes
	}{{"left", left}, {"right", right}} {
		for _, x := range side.ns {
			ok := false
			var miss gedcom.Node = x
			for _, y := range res {
				if fnKind == "always" {
					// an always-merge function merges by tag, not by equality: the root need not be equal
					if y.Tag().Is(x.Tag()) {
						if cok, m := c09Cover(y, x, &budget); cok {
							ok = true
							break
						} else if m != nil {
							miss = m
						}
					}
					continue
				}
				if c09Rep(y, x) {
					if cok, m := c09Cover(y, x, &budget); cok {
						ok = true
						break
					} else if m != nil {
						miss = m
					}
				}
			}
			if !ok {
				c.Violation("lost-node:MergeNodeSlices:"+side.name+":"+fnKind, fmt.Sprintf("%s element (or a node inside it) %s is not represented in the result\nelement:\n%s", side.name, gen.Describe(miss), c07Text(x)), payload)
			}
		}
	}
	for _, y := range res {
		var reps gedcom.Nodes
		for _, x := range append(append(gedcom.Nodes{}, left...), right...) {
			if (fnKind == "always" && y.Tag().Is(x.Tag())) || c09Rep(y, x) {
				reps = append(reps, x)
			}
		}
		if len(reps) == 0 {
			c.Violation("invented-node:MergeNodeSlices", fmt.Sprintf("result element %s stems from no input element", gen.Describe(y)), payload)
			continue
		}
		if bad := c09Stems(y, reps); bad != nil {
			c.Violation("invented-node:MergeNodeSlices", fmt.Sprintf("result node %s stems from no input node", gen.Describe(bad)), payload)
		}
	}
	if budget < 0 {
		c.Inconclusive("embedding-search-budget")
	}
	if successes > 0 && len(res) > successes {
		c.NontrivialStr(fmt.Sprint(lt, "\x00", rt, fnKind))
	}
	// identity + aliasing
	ids := map[gedcom.Node]bool{}
	for _, x := range left {
		c07Identity(x, ids)
	}
	rids := map[gedcom.Node]bool{}
	for _, x := range right {
		c07Identity(x, rids)
	}
	for _, y := range res {
		for _, z := range c07All(y) {
			if ids[z] || rids[z] {
				where := "left"
				if rids[z] {
					where = "right"
				}
				c.Violation("shared-node:MergeNodeSlices:"+where, fmt.Sprintf("result contains the %s input's own node object %s", where, gen.Describe(z)), payload)
				goto probe
			}
		}
	}
probe:
	c.Count("alias-probes", 1)
	for _, y := range res {
		c09MutateAll(y, 0)
	}
	if !c09Same(c09Texts(left), lt) || !c09Same(c09Texts(right), rt) {
		c.Violation("alias:mutating-result-changed-input:MergeNodeSlices", "after mutating the merge result an input list reads differently", payload)
		return
	}
	log = nil
	res2 := gedcom.MergeNodeSlices(left, right, gedcom.NewDocument(), fn)
	if !c09Same(c09Texts(res2), first) {
		c.Violation("second-merge-differs:MergeNodeSlices", "merging the same lists again gives a different result", payload)
	}
	if c.WantSample("slices") {
		c.Sample("slices", map[string]interface{}{"left": len(left), "right": len(right), "result": len(res), "merges": successes, "function": fnKind})
	}
}
