package props

import (
	"fmt"
	"sort"
	"strings"
	"time"

	"github.com/elliotchance/gedcom/v39"

	"verif/fw"
	"verif/ref"
)

// C06 — date-range comparison returns the documented interval relation.
// Receiver = "Right" operand of the documentation diagram, argument = "Left".

type c06Range struct {
	sy, sm, sd int // start date (possibly partial)
	ey, em, ed int // end date (possibly partial)
	// con: 0 none, 1 about, 2 before, 3 after. The constraint says how sure
	// the author is; the days of the period are the same.
	con int
}

var c06Constraints = []gedcom.DateConstraint{gedcom.DateConstraintExact, gedcom.DateConstraintAbout, gedcom.DateConstraintBefore, gedcom.DateConstraintAfter}

func (r c06Range) sameDays(o c06Range) bool {
	a, b := r.interval()
	c, d := o.interval()
	return a == c && b == d
}

func (r c06Range) with(con int) c06Range {
	r.con = con % 4
	return r
}

func (r c06Range) interval() (int64, int64) {
	f, _ := ref.Period(r.sy, r.sm, r.sd)
	_, l := ref.Period(r.ey, r.em, r.ed)
	return f, l
}

// build makes the range from two Date values. Whether the caller has marked
// the end date as the end of a range must not matter (NewDateRange does it):
// the flag is set for every second range.
func (r c06Range) build() gedcom.DateRange {
	flag := (r.sy+r.sm+r.sd+r.ey+r.em+r.ed)%2 == 0
	return gedcom.NewDateRange(
		gedcom.Date{Day: r.sd, Month: time.Month(r.sm), Year: r.sy, IsEndOfRange: !flag && r.sd%3 == 0, Constraint: c06Constraints[r.con]},
		gedcom.Date{Day: r.ed, Month: time.Month(r.em), Year: r.ey, IsEndOfRange: flag, Constraint: c06Constraints[r.con]})
}

var c06Mon = []string{"", "Jan", "Feb", "Mar", "Apr", "May", "Jun", "Jul", "Aug", "Sep", "Oct", "Nov", "Dec"}

func c06DateStr(y, m, d int) string {
	switch {
	case m == 0:
		return fmt.Sprintf("%d", y)
	case d == 0:
		return fmt.Sprintf("%s %d", c06Mon[m], y)
	}
	return fmt.Sprintf("%d %s %d", d, c06Mon[m], y)
}

func (r c06Range) String() string {
	if r.sy == r.ey && r.sm == r.em && r.sd == r.ed {
		return []string{"", "Abt. ", "Bef. ", "Aft. "}[r.con] + c06DateStr(r.sy, r.sm, r.sd)
	}
	return "Bet. " + c06DateStr(r.sy, r.sm, r.sd) + " and " + c06DateStr(r.ey, r.em, r.ed)
}

func c06Conv(c gedcom.DateRangeComparison) gedcom.DateRangeComparison {
	switch c {
	case gedcom.DateRangeComparisonEqual:
		return gedcom.DateRangeComparisonEqual
	case gedcom.DateRangeComparisonInside:
		return gedcom.DateRangeComparisonOutside
	case gedcom.DateRangeComparisonOutside:
		return gedcom.DateRangeComparisonInside
	case gedcom.DateRangeComparisonInsideStart:
		return gedcom.DateRangeComparisonOutsideStart
	case gedcom.DateRangeComparisonOutsideStart:
		return gedcom.DateRangeComparisonInsideStart
	case gedcom.DateRangeComparisonInsideEnd:
		return gedcom.DateRangeComparisonOutsideEnd
	case gedcom.DateRangeComparisonOutsideEnd:
		return gedcom.DateRangeComparisonInsideEnd
	case gedcom.DateRangeComparisonPartiallyBefore:
		return gedcom.DateRangeComparisonPartiallyAfter
	case gedcom.DateRangeComparisonPartiallyAfter:
		return gedcom.DateRangeComparisonPartiallyBefore
	case gedcom.DateRangeComparisonBefore:
		return gedcom.DateRangeComparisonAfter
	case gedcom.DateRangeComparisonAfter:
		return gedcom.DateRangeComparisonBefore
	case gedcom.DateRangeComparisonEntirelyBefore:
		return gedcom.DateRangeComparisonEntirelyAfter
	case gedcom.DateRangeComparisonEntirelyAfter:
		return gedcom.DateRangeComparisonEntirelyBefore
	}
	return gedcom.DateRangeComparisonInvalid
}

// c06Admissible lists every relation whose documented drawing fits receiver
// [a,b] against argument [c,d] (day numbers, a<=b, c<=d).
func c06Admissible(a, b, c, d int64) []gedcom.DateRangeComparison {
	var o []gedcom.DateRangeComparison
	add := func(ok bool, r gedcom.DateRangeComparison) {
		if ok {
			o = append(o, r)
		}
	}
	add(a == c && b == d, gedcom.DateRangeComparisonEqual)
	add(c < a && b < d, gedcom.DateRangeComparisonInside)
	add(a == c && b < d, gedcom.DateRangeComparisonInsideStart)
	add(c < a && b == d, gedcom.DateRangeComparisonInsideEnd)
	add(a < c && d < b, gedcom.DateRangeComparisonOutside)
	add(a == c && d < b, gedcom.DateRangeComparisonOutsideStart)
	add(a < c && b == d, gedcom.DateRangeComparisonOutsideEnd)
	add(a < c && c < b && b < d, gedcom.DateRangeComparisonPartiallyBefore)
	add(c < a && a < d && d < b, gedcom.DateRangeComparisonPartiallyAfter)
	add(a < c && b == c, gedcom.DateRangeComparisonBefore)
	add(a == d && d < b, gedcom.DateRangeComparisonAfter)
	add(b < c, gedcom.DateRangeComparisonEntirelyBefore)
	add(d < a, gedcom.DateRangeComparisonEntirelyAfter)
	return o
}

func c06Pattern(a, b, c, d int64) string {
	type lv struct {
		l string
		v int64
	}
	xs := []lv{{"a", a}, {"b", b}, {"c", c}, {"d", d}}
	sort.SliceStable(xs, func(i, j int) bool { return xs[i].v < xs[j].v })
	var sb strings.Builder
	for i, x := range xs {
		if i > 0 {
			if xs[i-1].v == x.v {
				sb.WriteByte('=')
			} else {
				sb.WriteByte('<')
			}
		}
		sb.WriteString(x.l)
	}
	return sb.String()
}

func c06Name(r gedcom.DateRangeComparison) string {
	return strings.TrimPrefix(r.String(), "DateRangeComparison")
}

func c06Check(c *fw.Ctx, R, A c06Range, viaString bool) {
	mode := 0
	if viaString {
		mode = 1
	}
	c06CheckMode(c, R, A, mode)
}

// c06CheckMode: mode 0 both operands built from Date values, 1 both read from
// text, 2 the receiver read from text and the argument built, 3 the reverse.
func c06CheckMode(c *fw.Ctx, R, A c06Range, mode int) {
	a, b := R.interval()
	cc, d := A.interval()
	if a > b || cc > d {
		return
	}
	viaString := mode != 0
	dr, da := R.build(), A.build()
	if mode == 1 || mode == 2 {
		dr = gedcom.NewDateRangeWithString(R.String())
	}
	if mode == 1 || mode == 3 {
		da = gedcom.NewDateRangeWithString(A.String())
	}
	if !dr.IsValid() || !da.IsValid() {
		c.Violation("valid-range-string-rejected", fmt.Sprintf("%q or %q reported invalid", R.String(), A.String()), []string{R.String(), A.String()})
		return
	}
	res := dr.Compare(da)
	rev := da.Compare(dr)
	pat := c06Pattern(a, b, cc, d)
	payload := map[string]interface{}{"receiver": R.String(), "argument": A.String(), "receiver_days": []int64{a, b}, "argument_days": []int64{cc, d}, "via_string": viaString}
	c.Count("comparisons", 1)
	c.Class("relation", c06Name(res))
	c.Class("pattern", pat)
	c.Nontrivial(fw.Mix(uint64(a), uint64(b), uint64(cc), uint64(d)))
	say := func(law, format string, args ...interface{}) {
		c.Violation(law+":"+pat, fmt.Sprintf("(%s).Compare(%s): ", R, A)+fmt.Sprintf(format, args...), payload)
	}
	if res == gedcom.DateRangeComparisonInvalid {
		say("invalid-for-forward-ranges", "returned Invalid")
		return
	}
	adm := c06Admissible(a, b, cc, d)
	ok := false
	var names []string
	for _, x := range adm {
		names = append(names, c06Name(x))
		if x == res {
			ok = true
		}
	}
	if !ok {
		say("wrong-relation", "returned %s; the documented drawing admits only %v for day intervals [%d,%d] vs [%d,%d]", c06Name(res), names, a, b, cc, d)
	}
	if a == cc && b == d && res != gedcom.DateRangeComparisonEqual {
		say("self-not-equal", "identical day intervals compare as %s, not Equal", c06Name(res))
	}
	if rev != c06Conv(res) {
		say("converse", "returned %s but swapped operands returned %s (converse would be %s)", c06Name(res), c06Name(rev), c06Name(c06Conv(res)))
	}
	n := 0
	if res.IsEqual() {
		n++
	}
	if res.IsPartiallyEqual() {
		n++
	}
	if res.IsNotEqual() {
		n++
	}
	if n != 1 {
		say("verdict-partition", "%s: IsEqual=%v IsPartiallyEqual=%v IsNotEqual=%v", c06Name(res), res.IsEqual(), res.IsPartiallyEqual(), res.IsNotEqual())
	}
	// the verdict must agree with whether the day intervals intersect
	intersect := !(b < cc || d < a)
	if ok {
		switch {
		case a == cc && b == d:
		case !intersect && !res.IsNotEqual():
			say("verdict-disjoint", "disjoint intervals but verdict is not not-equal (%s)", c06Name(res))
		}
	}
}

// window: 20 Dec 1999 .. 10 Jan 2000 (22 days)
func c06Window() []c06Range {
	start := ref.DayNumber(1999, 12, 20)
	var rs []c06Range
	for i := int64(0); i < 22; i++ {
		for j := i; j < 22; j++ {
			y1, m1, d1 := ref.Civil(start + i)
			y2, m2, d2 := ref.Civil(start + j)
			rs = append(rs, c06Range{y1, m1, d1, y2, m2, d2, 0})
		}
	}
	return rs
}

// granularity set: partial dates around month and year boundaries
func c06Gran() []c06Range {
	type pd struct{ y, m, d int }
	var ds []pd
	for _, y := range []int{1899, 1900, 1901, 1999, 2000, 2001} {
		ds = append(ds, pd{y, 0, 0})
		for _, m := range []int{1, 2, 3, 12} {
			ds = append(ds, pd{y, m, 0})
			dim := ref.DaysInMonth(y, m)
			for _, d := range []int{1, 2, dim - 1, dim} {
				ds = append(ds, pd{y, m, d})
			}
		}
	}
	var rs []c06Range
	for _, x := range ds {
		rs = append(rs, c06Range{x.y, x.m, x.d, x.y, x.m, x.d, 0})
	}
	// the two ends of the supported years: the first and the last day, month
	// and year, and ranges that start or end there
	for _, y := range []int{1, 9999} {
		for _, x := range []pd{{y, 0, 0}, {y, 1, 0}, {y, 12, 0}, {y, 1, 1}, {y, 1, 2}, {y, 12, 30}, {y, 12, 31}} {
			rs = append(rs, c06Range{x.y, x.m, x.d, x.y, x.m, x.d, 0})
		}
	}
	rs = append(rs, c06Range{1, 0, 0, 9999, 0, 0, 0}, c06Range{1, 1, 1, 9999, 12, 31, 0}, c06Range{1900, 0, 0, 9999, 0, 0, 0}, c06Range{1900, 2, 0, 9999, 12, 0, 0}, c06Range{9998, 0, 0, 9999, 0, 0, 0},
		c06Range{9999, 1, 1, 9999, 12, 31, 0}, c06Range{9999, 12, 30, 9999, 12, 31, 0}, c06Range{1, 0, 0, 2, 0, 0, 0}, c06Range{1, 1, 1, 1, 1, 2, 0}, c06Range{1, 0, 0, 2000, 2, 29, 0})
	// ranges between partial dates (subset: start and end in adjacent positions)
	for i := 0; i < len(ds); i++ {
		for _, k := range []int{1, 2, 5, 9, 21} {
			j := i + k
			if j >= len(ds) {
				continue
			}
			r := c06Range{ds[i].y, ds[i].m, ds[i].d, ds[j].y, ds[j].m, ds[j].d, 0}
			if a, b := r.interval(); a <= b {
				rs = append(rs, r)
			}
		}
	}
	return rs
}

func c06RandCases(tier string) int {
	if tier == "thorough" {
		return 8000
	}
	return 100
}

func init() {
	fw.Register(&fw.Prop{
		ID:    "C06",
		Title: "Date-range comparison returns the documented interval relation",
		Cases: func(tier string, seed uint64) int { return len(c06Window()) + len(c06Gran()) + c06RandCases(tier) },
		Run:   c06Run,
		Rule: "one case = one receiver range compared with every argument range of its stratum: (a) exhaustive 253x253 ordered pairs of day ranges in a 22-day window over a month+year boundary, built as structs and again through the 'Bet. X and Y' parser; " +
			"(b) all ordered pairs of day/month/year-granularity ranges around Feb 1900/2000 and year boundaries; (c) 1000 random range pairs per case over years 1..9999 with forced endpoint coincidences. " +
			"oracle: documented relation predicates on integer day numbers + self/never-invalid/converse/verdict-partition laws. distinct = distinct (a,b,c,d) endpoint tuples",
		Exhaustive: func(tier string) bool { return false },
		Floors: func(a *fw.Agg, tier string) []string {
			var f []string
			if n := a.ClassCount("relation"); n < 13 {
				f = append(f, fmt.Sprintf("only %d of 13 relations observed", n))
			}
			if a.Counters["comparisons"] < 100000 {
				f = append(f, "fewer than 100000 comparisons")
			}
			return f
		},
		Assumptions: []string{
			"receiver is the diagram's 'Right' operand and the argument its 'Left' operand (as in date_range_test.go)",
			"where a single-day argument touches an endpoint the drawing fits two relations; the check accepts either and lets the converse law (stated in the property) decide",
		},
	})
}

func c06Run(c *fw.Ctx, i int) {
	win := c06Window()
	if i < len(win) {
		R := win[i]
		for _, A := range win {
			c06Check(c, R, A, false)
		}
		// the same through the parser for a third of the arguments
		for j, A := range win {
			if (i+j)%3 == 0 {
				c06Check(c, R, A, true)
			}
		}
		// one operand read from text, the other built (the same text against
		// many different built ranges, and the other way round)
		for j, A := range win {
			if (i+j)%2 == 0 {
				c06CheckMode(c, R, A, 2+(j/2)%2)
			}
		}
		// and with constraint words on one or both sides
		for j, A := range win {
			if (i+j)%3 == 1 || R.sameDays(A) {
				c06Check(c, R.with(i+j/4), A.with(j), j%2 == 0)
			}
		}
		if c.WantSample("window") {
			c.Sample("window", map[string]string{"receiver": R.String(), "vs": "all 253 ranges in 20 Dec 1999..10 Jan 2000", "example": c06Name(R.build().Compare(win[100].build())) + " vs " + win[100].String()})
		}
		return
	}
	i -= len(win)
	gr := c06Gran()
	if i < len(gr) {
		R := gr[i]
		for j, A := range gr {
			c06Check(c, R, A, (i+j)%2 == 0)
			if (i+j)%3 == 0 || R.sameDays(A) {
				c06Check(c, R.with(i+j/4), A.with(j), j%2 == 0)
			}
			if (i+j)%3 == 1 {
				c06CheckMode(c, R, A, 2+(j/3)%2)
			}
		}
		if c.WantSample("granularity") {
			c.Sample("granularity", map[string]string{"receiver": R.String(), "vs": fmt.Sprintf("all %d mixed-granularity ranges", len(gr))})
		}
		return
	}
	// random
	r := c.R
	randDay := func() int64 { return ref.DayNumber(1, 1, 1) + int64(r.Intn(3652059)) }
	// first of all, ranges nobody has looked at yet are compared by 8
	// goroutines at once (the same DATE node objects in all of them): every
	// answer must be what a lone caller gets from fresh nodes
	{
		var texts []string
		var nodes []*gedcom.DateNode
		for k := 0; k < 200; k++ {
			x, y := randDay(), randDay()
			if k%2 == 1 {
				y = x + int64(r.Range(-400, 400))
			}
			if y < ref.DayNumber(1, 1, 1) || y > ref.DayNumber(9999, 12, 31) {
				y = x
			}
			if x > y {
				x, y = y, x
			}
			y1, m1, d1 := ref.Civil(x)
			y2, m2, d2 := ref.Civil(y)
			t := c06Range{y1, m1, d1, y2, m2, d2, r.Intn(4)}.String()
			texts = append(texts, t)
			nodes = append(nodes, gedcom.NewDateNode(t))
		}
		cmp := func(a, b *gedcom.DateNode) string {
			x, y := a.DateRange(), b.DateRange()
			return c06Name(x.Compare(y)) + "/" + c06Name(y.Compare(x))
		}
		c.Count("parallel-evaluations", int64(8*len(texts)))
		n := len(texts)
		if k, par, alone := fw.ParallelThenAlone(8, n, func(k int) string { return cmp(nodes[k], nodes[(k*7+1)%n]) }, func(k int) string {
			return cmp(gedcom.NewDateNode(texts[k]), gedcom.NewDateNode(texts[(k*7+1)%n]))
		}); k >= 0 {
			c.Violation("parallel-evaluation-differs", fmt.Sprintf("(%s).Compare(%s) and its converse asked while 7 other goroutines compare too: %s, alone: %s", texts[k], texts[(k*7+1)%n], par, alone), []string{texts[k], texts[(k*7+1)%n]})
		}
	}
	mk := func(x, y int64) c06Range {
		if x > y {
			x, y = y, x
		}
		y1, m1, d1 := ref.Civil(x)
		y2, m2, d2 := ref.Civil(y)
		return c06Range{y1, m1, d1, y2, m2, d2, 0}
	}
	for k := 0; k < 1000; k++ {
		pts := []int64{randDay(), 0, 0, 0}
		for q := 1; q < 4; q++ {
			switch r.Intn(4) {
			case 0:
				pts[q] = pts[r.Intn(q)] // coincidence
			case 1:
				pts[q] = pts[r.Intn(q)] + int64(r.Range(-40, 40))
			default:
				pts[q] = randDay()
			}
			if pts[q] < ref.DayNumber(1, 1, 1) {
				pts[q] = ref.DayNumber(1, 1, 1)
			}
			if pts[q] > ref.DayNumber(9999, 12, 31) {
				pts[q] = ref.DayNumber(9999, 12, 31)
			}
		}
		R, A := mk(pts[0], pts[1]), mk(pts[2], pts[3])
		if r.Bool() {
			R, A = R.with(r.Intn(4)), A.with(r.Intn(4))
		}
		c06CheckMode(c, R, A, []int{1, 0, 2, 0, 1, 3, 0, 0}[k%8])
		if k == 0 && c.WantSample("random") {
			c.Sample("random", map[string]string{"receiver": R.String(), "argument": A.String(), "result": c06Name(R.build().Compare(A.build()))})
		}
	}
}
