package props

import (
	"fmt"
	"math"
	"sort"
	"strings"
	"time"

	"github.com/elliotchance/gedcom/v39"

	"verif/fw"
	"verif/gen"
)

// C12 — similarity scores are bounded, symmetric and maximal on identity.

const c12Tol = 1e-9

func c12Strings(alpha string, maxLen int) []string {
	out := []string{""}
	prev := []string{""}
	for l := 1; l <= maxLen; l++ {
		var cur []string
		for _, p := range prev {
			for _, ch := range alpha {
				cur = append(cur, p+string(ch))
			}
		}
		out = append(out, cur...)
		prev = cur
	}
	return out
}

type c12Stratum struct {
	alpha  string
	maxLen int
	clean  bool // through StringSimilarity
}

func c12Strata(tier string) []c12Stratum {
	if tier == "thorough" {
		return []c12Stratum{{"ab", 10, false}, {"abc", 7, false}, {"a b", 6, true}}
	}
	return []c12Stratum{{"ab", 8, false}, {"abc", 5, false}, {"a b", 4, true}}
}

func c12StringCases(tier string) (n int, offs []int) {
	for _, s := range c12Strata(tier) {
		offs = append(offs, n)
		n += len(c12Strings(s.alpha, s.maxLen))
	}
	return
}

func c12Other(tier string) int {
	if tier == "thorough" {
		return 3000
	}
	return 300
}

func init() {
	fw.Register(&fw.Prop{
		ID:    "C12",
		Title: "Similarity scores are bounded, symmetric and maximal on identity",
		Cases: func(tier string, seed uint64) int { n, _ := c12StringCases(tier); return n + c12Other(tier) },
		Run:   c12Run,
		Rule: "law monitors (range [0,1], symmetry within 1e-9, identity = 1, date similarity = non-increasing function of year distance only and 0 beyond MaxYears, missing operand = 0.5) on every similarity function. " +
			"strings: exhaustive unordered pairs over {a,b} up to length 8/10, {a,b,c} up to 5/7 and {a,b,space} through the cleaning front end, each under 3 (threshold, prefix) settings; random names with punctuation/case/unicode; dates: all pairs of a ~400-date grid + translations + triples; " +
			"individuals, lists, families, husband/wife and surrounding similarity on random family graphs under default and random options (weights summing to 1, prefix <= 10, MaxYears in (0,50]). distinct = distinct operand pairs (hash)",
		Floors: func(a *fw.Agg, tier string) []string {
			var f []string
			for _, k := range []string{"string-pairs", "date-pairs", "individual-pairs", "list-pairs", "family-pairs", "surrounding-pairs", "identity-checks", "neutral-checks", "monotone-triples", "translation-pairs"} {
				if a.Counters[k] < 100 {
					f = append(f, fmt.Sprintf("%s=%d < 100", k, a.Counters[k]))
				}
			}
			return f
		},
		Assumptions: []string{
			"symmetry tolerance 1e-9 (floating-point summation order is the only legitimate difference)",
			"an individual without any NAME scoring name-similarity 0 and two empty lists scoring 1 are existing documented behaviour and are not treated as 'missing information'",
			"configurations: weights sum to 1, JaroPrefixSize <= 10, MaxYears > 0",
		},
	})
}

func c12Bad(v float64) bool { return math.IsNaN(v) || v < -c12Tol || v > 1+c12Tol }

var c12JW = []struct {
	thr float64
	pre int
}{{0, 8}, {0.7, 4}, {0, 10}}

func c12Run(c *fw.Ctx, i int) {
	n, offs := c12StringCases(c.Tier)
	if i < n {
		strata := c12Strata(c.Tier)
		si := len(offs) - 1
		for si > 0 && i < offs[si] {
			si--
		}
		st := strata[si]
		all := c12Strings(st.alpha, st.maxLen)
		k := i - offs[si]
		c12StringBlock(c, st, all, k)
		return
	}
	i -= n
	switch i % 3 {
	case 0:
		c12Names(c)
	case 1:
		c12Dates(c, i/3)
	case 2:
		c12People(c)
	}
}

func c12StringBlock(c *fw.Ctx, st c12Stratum, all []string, k int) {
	a := all[k]
	f := func(x, y string, thr float64, pre int) float64 {
		if st.clean {
			return gedcom.StringSimilarity(x, y, thr, pre)
		}
		return gedcom.JaroWinkler(x, y, thr, pre)
	}
	fname := "JaroWinkler"
	if st.clean {
		fname = "StringSimilarity"
	}
	for j := k; j < len(all); j++ {
		b := all[j]
		c.Count("string-pairs", 1)
		c.Nontrivial(fw.HashStr(a+"\x00"+b) ^ uint64(len(st.alpha)))
		for _, p := range c12JW {
			ab, ba := f(a, b, p.thr, p.pre), f(b, a, p.thr, p.pre)
			pl := map[string]interface{}{"a": a, "b": b, "boost_threshold": p.thr, "prefix_size": p.pre, "function": fname}
			if c12Bad(ab) || c12Bad(ba) {
				c.Violation("range:"+fname, fmt.Sprintf("%s(%q,%q,%v,%d)=%v / swapped %v outside [0,1]", fname, a, b, p.thr, p.pre, ab, ba), pl)
			}
			if math.Abs(ab-ba) > c12Tol {
				c.Violation("symmetry:"+fname, fmt.Sprintf("%s(%q,%q,%v,%d)=%.12f but swapped = %.12f", fname, a, b, p.thr, p.pre, ab, ba), pl)
			}
			if j == k {
				cleaned := a
				if st.clean {
					cleaned = gedcom.CleanSpace(a)
				}
				if cleaned != "" {
					c.Count("identity-checks", 1)
					if math.Abs(ab-1) > c12Tol {
						c.Violation("identity:"+fname, fmt.Sprintf("%s(%q,%q)=%v, want 1", fname, a, a, ab), pl)
					}
				}
			}
		}
	}
	if c.WantSample("string") && len(a) > 3 {
		c.Sample("string", map[string]interface{}{"left": a, "vs": fmt.Sprintf("all %d strings >= it over alphabet %q", len(all)-k, st.alpha)})
	}
}

func c12RandName(r *fw.Rand) string {
	parts := []string{"John", "john", "JOHN", "Jon", "Smith", "Smyth", "O'Neil", "van der Berg", "Müller", "Élise", "名前", "Mary-Ann", "St. John", "(unknown)", "?", "...", "  ", "/", "Jr.", "III", "a", "ab", "abcdefghijklmnopqrstuvwxyz", "Żółć", "x9", "1900", "Muller", "Elise", "Иван", "Иван Петров", "Ivan Petrov", "Zolc", "名", "Ødegård", "Odegard"}
	n := r.Intn(4)
	var ps []string
	for k := 0; k <= n; k++ {
		p := parts[r.Intn(len(parts))]
		if r.Chance(1, 5) {
			p = gen.Cap(gen.Token(r.Intn(5000)))
		}
		ps = append(ps, p)
	}
	s := strings.Join(ps, []string{" ", " ", "  ", " /", ", "}[r.Intn(5)])
	if r.Chance(1, 4) {
		s += "/"
	}
	return s
}

func c12Names(c *fw.Ctx) {
	r := c.R
	var names []string
	for k := 0; k < 40; k++ {
		names = append(names, c12RandName(r))
	}
	// long names and near copies of them (a doubled or a dropped letter, a
	// word more): lengths around and beyond machine-word and buffer sizes
	for k := 0; k < 8; k++ {
		var ps []string
		for n := r.Range(5, 16); n > 0; n-- {
			ps = append(ps, []string{"Pablo", "Diego", "Jose", "Francisco", "de", "Paula", "Juan", "Nepomuceno", "Cipriano", "Ruiz", "Picasso", "Maria", "von", "Hohenzollern", "Sigmaringen"}[r.Intn(15)])
		}
		a := strings.Join(ps, " ")
		names = append(names, a)
		b := []byte(a)
		for e := r.Range(1, 3); e > 0 && len(b) > 2; e-- {
			q := len(b) - 1 - r.Intn(minInt(len(b)-1, 12))
			switch r.Intn(3) {
			case 0:
				b = append(b[:q], b[q+1:]...)
			case 1:
				b = append(b[:q], append([]byte{b[q]}, b[q:]...)...)
			case 2:
				b = append(b, " Cipriano"...)
			}
		}
		names = append(names, string(b))
	}
	// raw comparisons of long strings over a small alphabet, one at most and
	// one more than 64 bytes long
	for k := 0; k < 30; k++ {
		alpha := []string{"ab", "abc", "ab "}[r.Intn(3)]
		mk := func(n int) string {
			b := make([]byte, n)
			for q := range b {
				b[q] = alpha[r.Intn(len(alpha))]
			}
			return string(b)
		}
		a := mk(r.Range(40, 64))
		b := a[:r.Intn(len(a))] + mk(r.Range(1, 40))
		if r.Bool() {
			b = mk(r.Range(65, 130))
		}
		p := c12JW[r.Intn(len(c12JW))]
		ab, ba := gedcom.JaroWinkler(a, b, p.thr, p.pre), gedcom.JaroWinkler(b, a, p.thr, p.pre)
		c.Count("string-pairs", 1)
		c.Count("long-string-pairs", 1)
		pl := map[string]interface{}{"a": a, "b": b, "boost_threshold": p.thr, "prefix_size": p.pre, "function": "JaroWinkler"}
		if c12Bad(ab) || c12Bad(ba) {
			c.Violation("range:JaroWinkler", fmt.Sprintf("JaroWinkler(%q,%q,%v,%d)=%v / swapped %v outside [0,1]", a, b, p.thr, p.pre, ab, ba), pl)
		}
		if math.Abs(ab-ba) > c12Tol {
			c.Violation("symmetry:JaroWinkler", fmt.Sprintf("JaroWinkler(%q,%q,%v,%d)=%.12f but swapped = %.12f", a, b, p.thr, p.pre, ab, ba), pl)
		}
		if aa := gedcom.JaroWinkler(b, b, p.thr, p.pre); math.Abs(aa-1) > c12Tol {
			c.Violation("identity:JaroWinkler", fmt.Sprintf("JaroWinkler(%q, itself)=%v, want 1", b, aa), pl)
		}
	}
	for x := 0; x < len(names); x++ {
		for y := x; y < len(names); y++ {
			a, b := names[x], names[y]
			p := c12JW[r.Intn(len(c12JW))]
			ab := gedcom.StringSimilarity(a, b, p.thr, p.pre)
			ba := gedcom.StringSimilarity(b, a, p.thr, p.pre)
			c.Count("string-pairs", 1)
			c.Count("name-pairs", 1)
			c.NontrivialStr("n:" + a + "\x00" + b)
			pl := map[string]interface{}{"a": a, "b": b, "boost_threshold": p.thr, "prefix_size": p.pre}
			if c12Bad(ab) || c12Bad(ba) {
				c.Violation("range:StringSimilarity", fmt.Sprintf("StringSimilarity(%q,%q)=%v/%v", a, b, ab, ba), pl)
			}
			if math.Abs(ab-ba) > c12Tol {
				c.Violation("symmetry:StringSimilarity", fmt.Sprintf("StringSimilarity(%q,%q,%v,%d)=%.12f swapped %.12f", a, b, p.thr, p.pre, ab, ba), pl)
			}
			// the same pair handed to JaroWinkler as it is (accents, Cyrillic and
			// CJK letters, punctuation: nothing is cleaned away on this path)
			{
				jab, jba := gedcom.JaroWinkler(a, b, p.thr, p.pre), gedcom.JaroWinkler(b, a, p.thr, p.pre)
				c.Count("raw-name-pairs", 1)
				plj := map[string]interface{}{"a": a, "b": b, "boost_threshold": p.thr, "prefix_size": p.pre, "function": "JaroWinkler"}
				if c12Bad(jab) || c12Bad(jba) {
					c.Violation("range:JaroWinkler", fmt.Sprintf("JaroWinkler(%q,%q,%v,%d)=%v / swapped %v outside [0,1]", a, b, p.thr, p.pre, jab, jba), plj)
				}
				if math.Abs(jab-jba) > c12Tol {
					c.Violation("symmetry:JaroWinkler", fmt.Sprintf("JaroWinkler(%q,%q,%v,%d)=%.12f but swapped = %.12f", a, b, p.thr, p.pre, jab, jba), plj)
				}
				if x == y && a != "" && math.Abs(jab-1) > c12Tol {
					c.Violation("identity:JaroWinkler", fmt.Sprintf("JaroWinkler(%q, itself)=%v, want 1", a, jab), plj)
				}
			}
			if x == y {
				// identical names score 1 unless nothing is left after the documented cleaning
				cl := c12Clean(a)
				if cl != "" {
					c.Count("identity-checks", 1)
					if math.Abs(ab-1) > c12Tol {
						c.Violation("identity:StringSimilarity", fmt.Sprintf("StringSimilarity(%q,%q)=%v want 1 (cleaned %q)", a, a, ab, cl), pl)
					}
				}
			}
		}
	}
	if c.WantSample("names") {
		c.Sample("names", names[:5])
	}
}

// c12Clean mirrors the documented cleaning: lower-case, keep [a-z0-9 ], collapse spaces.
func c12Clean(s string) string {
	var b strings.Builder
	for _, r := range strings.ToLower(s) {
		if (r >= 'a' && r <= 'z') || (r >= '0' && r <= '9') || r == ' ' {
			b.WriteRune(r)
		}
	}
	return strings.Join(strings.Fields(b.String()), " ")
}

func c12DateGrid(r *fw.Rand) []gedcom.Date {
	var ds []gedcom.Date
	for _, y := range []int{1, 2, 100, 1582, 1799, 1800, 1801, 1802, 1803, 1805, 1810, 1850, 1899, 1900, 1901, 1904, 1999, 2000, 2001, 2020, 9998, 9999} {
		ds = append(ds, gedcom.Date{Year: y})
		for _, m := range []int{1, 2, 6, 12} {
			ds = append(ds, gedcom.Date{Year: y, Month: time.Month(m)})
			for _, d := range []int{1, 15, 28} {
				ds = append(ds, gedcom.Date{Year: y, Month: time.Month(m), Day: d})
			}
		}
	}
	for k := 0; k < 30; k++ {
		y := r.Range(1, 9999)
		m := r.Range(1, 12)
		ds = append(ds, gedcom.Date{Year: y, Month: time.Month(m), Day: r.Range(1, 28)})
	}
	return ds
}

func c12DateStr(d gedcom.Date) string { return d.String() }

func c12Dates(c *fw.Ctx, k int) {
	r := c.R
	grid := c12DateGrid(r)
	maxYearsList := []float64{gedcom.DefaultMaxYearsForSimilarity, 1, 0.5, 10, 50, r.Float()*49 + 0.01, 1.5, 2.5, 0.25}
	mk := func(d gedcom.Date) gedcom.DateRange { return gedcom.NewDateRange(d, d) }
	// every (distance, score) seen in this case, by MaxYears: the score is a
	// function of the distance alone and never goes up with it - also between
	// pairs that have no date in common
	type c12Obs struct {
		d, s float64
		what string
	}
	obs := map[float64][]c12Obs{}
	// choose a slice of left operands for this case so that the whole grid is covered over cases
	for x := k % 7; x < len(grid); x += 7 {
		for y := 0; y < len(grid); y++ {
			a, b := grid[x], grid[y]
			my := maxYearsList[(x+y)%len(maxYearsList)]
			ra, rb := mk(a), mk(b)
			ab, ba := ra.Similarity(rb, my), rb.Similarity(ra, my)
			c.Count("date-pairs", 1)
			c.NontrivialStr("d:" + c12DateStr(a) + "|" + c12DateStr(b))
			pl := map[string]interface{}{"a": c12DateStr(a), "b": c12DateStr(b), "max_years": my}
			if c12Bad(ab) || c12Bad(ba) {
				c.Violation("range:DateRange.Similarity", fmt.Sprintf("(%s).Similarity(%s,%v)=%v/%v", a, b, my, ab, ba), pl)
			}
			if math.Abs(ab-ba) > c12Tol {
				c.Violation("symmetry:DateRange.Similarity", fmt.Sprintf("(%s).Similarity(%s,%v)=%.12f swapped %.12f", a, b, my, ab, ba), pl)
			}
			dist := math.Abs(ra.Years() - rb.Years())
			obs[my] = append(obs[my], c12Obs{dist, ab, a.String() + " vs " + b.String()})
			if dist > my+1e-9 && ab != 0 {
				c.Violation("zero-beyond-max:DateRange.Similarity", fmt.Sprintf("(%s) vs (%s): %.6f years apart > MaxYears %v but similarity %v", a, b, dist, my, ab), pl)
			}
			if x == y {
				c.Count("identity-checks", 1)
				if math.Abs(ab-1) > c12Tol {
					c.Violation("identity:DateRange.Similarity", fmt.Sprintf("(%s).Similarity(itself)=%v", a, ab), pl)
				}
			}
			// the same through DATE nodes
			na, nb := gedcom.NewDateNode(c12DateStr(a)), gedcom.NewDateNode(c12DateStr(b))
			nab, nba := na.Similarity(nb, my), nb.Similarity(na, my)
			if c12Bad(nab) || math.Abs(nab-nba) > c12Tol || math.Abs(nab-ab) > c12Tol {
				c.Violation("node-vs-range:DateNode.Similarity", fmt.Sprintf("DateNode(%s).Similarity(DateNode(%s),%v)=%v swapped %v; range similarity %v", a, b, my, nab, nba, ab), pl)
			}
			// monotone: a third date further away on the same side must not score higher
			z := grid[(x*31+y*17+k)%len(grid)]
			rz := mk(z)
			ya, yb, yz := ra.Years(), rb.Years(), rz.Years()
			if (yb-ya)*(yz-ya) >= 0 && math.Abs(yz-ya) > math.Abs(yb-ya) {
				c.Count("monotone-triples", 1)
				az := ra.Similarity(rz, my)
				if az > ab+c12Tol {
					c.Violation("monotone:DateRange.Similarity", fmt.Sprintf("(%s) vs (%s) [%.4f y apart] = %v but vs (%s) [%.4f y apart] = %v", a, b, math.Abs(yb-ya), ab, z, math.Abs(yz-ya), az), pl)
				}
			}
		}
		// distance only: year-only dates translated by the same amount
		y1, y2, sh := r.Range(1, 9000), 0, r.Range(1, 900)
		y2 = y1 + r.Range(0, 60)
		my := maxYearsList[r.Intn(len(maxYearsList))]
		s1 := mk(gedcom.Date{Year: y1}).Similarity(mk(gedcom.Date{Year: y2}), my)
		s2 := mk(gedcom.Date{Year: y1 + sh}).Similarity(mk(gedcom.Date{Year: y2 + sh}), my)
		c.Count("translation-pairs", 1)
		if math.Abs(s1-s2) > c12Tol {
			c.Violation("distance-only:DateRange.Similarity", fmt.Sprintf("years %d/%d score %v but %d/%d (same distance) score %v (MaxYears %v)", y1, y2, s1, y1+sh, y2+sh, s2, my), nil)
		}
	}
	for my, os := range obs {
		sort.Slice(os, func(i, j int) bool { return os[i].d < os[j].d })
		lowest := os[0] // the lowest score among the pairs that are closer together
		for _, o := range os {
			c.Count("date-score-vs-distance-checks", 1)
			if o.s > lowest.s+c12Tol && o.d > lowest.d {
				c.Violation("distance-only:DateRange.Similarity", fmt.Sprintf("with MaxYears %v, %s (%.6f years apart) score %v, but %s (%.6f years apart, closer together) score %v", my, o.what, o.d, o.s, lowest.what, lowest.d, lowest.s), map[string]interface{}{"max_years": my, "closer": lowest.what, "further": o.what})
				break
			}
			if o.s < lowest.s {
				lowest = o
			}
		}
	}
	// missing operand
	var nilNode *gedcom.DateNode
	n := gedcom.NewDateNode("3 Sep 1943")
	c.Count("neutral-checks", 2)
	if v := n.Similarity(nilNode, 3); v != 0.5 {
		c.Violation("neutral:DateNode.Similarity", fmt.Sprintf("date vs missing date = %v, want 0.5", v), nil)
	}
	if v := nilNode.Similarity(n, 3); v != 0.5 {
		c.Violation("neutral:DateNode.Similarity", fmt.Sprintf("missing date vs date = %v, want 0.5", v), nil)
	}
	if c.WantSample("dates") {
		c.Sample("dates", map[string]interface{}{"grid_size": len(grid), "example": c12DateStr(grid[3]) + " vs " + c12DateStr(grid[40])})
	}
}

func c12RandOptions(r *fw.Rand) gedcom.SimilarityOptions {
	o := gedcom.NewSimilarityOptions()
	if r.Chance(1, 3) {
		return o
	}
	w := []float64{r.Float(), r.Float(), r.Float(), r.Float()}
	t := w[0] + w[1] + w[2] + w[3]
	if t == 0 {
		return o
	}
	if r.Chance(1, 3) {
		// weights of exactly 0 are legal: "only look at the individual"
		for z := r.Range(1, 3); z > 0; z-- {
			w[r.Intn(4)] = 0
		}
		t = w[0] + w[1] + w[2] + w[3]
		if t == 0 {
			w[r.Intn(4)], t = 1, 1
		}
	}
	o.IndividualWeight, o.ParentsWeight, o.SpousesWeight = w[0]/t, w[1]/t, w[2]/t
	o.ChildrenWeight = 1 - o.IndividualWeight - o.ParentsWeight - o.SpousesWeight
	if o.ChildrenWeight < 0 || w[3] == 0 {
		o.ChildrenWeight = 0
	}
	o.MaxYears = r.Float()*49.9 + 0.1
	o.JaroPrefixSize = r.Range(0, 10)
	o.JaroBoostThreshold = []float64{0, 0.5, 0.7, 0.9}[r.Intn(4)]
	o.NameToDateRatio = r.Float()
	o.MinimumSimilarity = []float64{0, 0.3, gedcom.DefaultMinimumSimilarity, 0.9, 1}[r.Intn(5)]
	o.MinimumWeightedSimilarity = o.MinimumSimilarity
	return o
}

func c12People(c *fw.Ctx) {
	r := c.R
	g := gen.NewFG(r, gen.FGOpts{People: r.Range(2, 25), MultiNames: true, MissingBits: true, WithUIDs: true})
	// indistinguishable records (twins / duplicate entries) produce score ties
	nClones := 0
	if len(g.People) > 0 {
		for k := 0; k < 3; k++ {
			src := g.People[r.Intn(len(g.People))]
			for q := 0; q < 1+r.Intn(2); q++ {
				nClones++
				g.ClonePerson(src, fmt.Sprintf("K%d", nClones))
			}
		}
	}
	text := g.Text()
	doc, err := gedcom.NewDocumentFromString(text)
	if err != nil {
		c.HarnessError("FG text does not decode: " + err.Error())
		return
	}
	g2 := gen.NewFG(r, gen.FGOpts{People: r.Range(0, 12), MultiNames: true, MissingBits: true, PtrPrefix: "J"})
	doc2, err := gedcom.NewDocumentFromString(g2.Text())
	if err != nil {
		c.HarnessError("FG text does not decode: " + err.Error())
		return
	}
	inds := append(append(gedcom.IndividualNodes{}, doc.Individuals()...), doc2.Individuals()...)
	twin := map[string]*gedcom.IndividualNode{}
	twinFam := map[string]*gedcom.FamilyNode{}
	for _, t := range []string{text, g2.Text()} {
		if d, err := gedcom.NewDocumentFromString(t); err == nil {
			for _, x := range d.Individuals() {
				twin[x.Pointer()] = x
			}
			for _, x := range d.Families() {
				twinFam[x.Pointer()] = x
			}
		}
	}
	fams := append(append(gedcom.FamilyNodes{}, doc.Families()...), doc2.Families()...)
	opts := c12RandOptions(r)
	// first of all the scores are asked by 8 goroutines at once of individuals
	// nobody has looked at yet (a third decode): every answer must be what a
	// lone caller gets from yet another decode
	if pd, err := gedcom.NewDocumentFromString(text); err == nil && len(pd.Individuals()) > 1 {
		ad, _ := gedcom.NewDocumentFromString(text)
		score := func(l gedcom.IndividualNodes, k int) string {
			a, b := l[k%len(l)], l[(k*5+1)%len(l)]
			ss := a.SurroundingSimilarity(b, opts, k%2 == 0)
			return fmt.Sprintf("%.12f %.12f %.12f", a.Similarity(b, opts), ss.WeightedSimilarity(), b.Similarity(a, opts))
		}
		pl, al := pd.Individuals(), ad.Individuals()
		n := 3 * len(pl)
		c.Count("parallel-evaluations", int64(8*n))
		if k, par, alone := fw.ParallelThenAlone(8, n, func(k int) string { return score(pl, k) }, func(k int) string { return score(al, k) }); k >= 0 {
			c.Violation("parallel-evaluation-differs", fmt.Sprintf("similarity / weighted surrounding similarity / swapped similarity of %s and %s asked while 7 other goroutines ask too: %s, alone: %s (options %s)", pl[k%len(pl)].Pointer(), pl[(k*5+1)%len(pl)].Pointer(), par, alone, opts), map[string]interface{}{"left_gedcom": text, "options": opts.String()})
		}
	}
	pl := map[string]interface{}{"left_gedcom": text, "right_gedcom": g2.Text(), "options": opts.String()}
	chk := func(fn string, ab, ba float64, what string) {
		if c12Bad(ab) || c12Bad(ba) {
			c.Violation("range:"+fn, fmt.Sprintf("%s %s = %v / swapped %v outside [0,1] (options %s)", fn, what, ab, ba, opts), pl)
		}
		if math.Abs(ab-ba) > c12Tol {
			c.Violation("symmetry:"+fn, fmt.Sprintf("%s %s = %.12f but swapped = %.12f (options %s)", fn, what, ab, ba, opts), pl)
		}
	}
	// the weighted similarity on its own: component similarities anywhere in
	// [0,1] (the corners included) under random weights that sum to 1
	for k := 0; k < 20; k++ {
		o := c12RandOptions(r)
		v := [4]float64{}
		for q := range v {
			v[q] = []float64{0, 1, 1, 0.5, r.Float()}[r.Intn(5)]
		}
		ss := gedcom.NewSurroundingSimilarity(v[0], v[1], v[2], v[3])
		ss.Options = o
		c.Count("weighted-only", 1)
		if w := ss.WeightedSimilarity(); c12Bad(w) {
			c.Violation("range:SurroundingSimilarity.Weighted", fmt.Sprintf("parents %v individual %v spouses %v children %v under %s gives %v", v[0], v[1], v[2], v[3], o, w), map[string]interface{}{"similarities": v, "options": o.String()})
		}
	}
	var nilInd *gedcom.IndividualNode
	for x := 0; x < len(inds); x++ {
		a := inds[x]
		for y := x; y < len(inds); y++ {
			b := inds[y]
			c.Count("individual-pairs", 1)
			c.NontrivialStr("i:" + a.GEDCOMString(0) + "|" + b.GEDCOMString(0))
			what := fmt.Sprintf("%s vs %s", a.Pointer(), b.Pointer())
			chk("IndividualNode.Similarity", a.Similarity(b, opts), b.Similarity(a, opts), what)
			if (x+y)%3 == 0 {
				c.Count("surrounding-pairs", 1)
				force := (x+y)%2 == 0
				sa, sb := a.SurroundingSimilarity(b, opts, force), b.SurroundingSimilarity(a, opts, force)
				chk("SurroundingSimilarity.Parents", sa.ParentsSimilarity, sb.ParentsSimilarity, what)
				chk("SurroundingSimilarity.Individual", sa.IndividualSimilarity, sb.IndividualSimilarity, what)
				chk("SurroundingSimilarity.Spouses", sa.SpousesSimilarity, sb.SpousesSimilarity, what)
				chk("SurroundingSimilarity.Children", sa.ChildrenSimilarity, sb.ChildrenSimilarity, what)
				chk("SurroundingSimilarity.Weighted", sa.WeightedSimilarity(), sb.WeightedSimilarity(), what)
				if force && len(a.Parents()) == 0 != (len(b.Parents()) == 0) {
					c.Count("neutral-checks", 1)
					if sa.ParentsSimilarity != 0.5 || sb.ParentsSimilarity != 0.5 {
						c.Violation("neutral:SurroundingSimilarity.Parents", fmt.Sprintf("%s: one side has no parents but ParentsSimilarity = %v / %v, want 0.5", what, sa.ParentsSimilarity, sb.ParentsSimilarity), pl)
					}
				}
			}
		}
		// identity: a person with a name and both estimated dates scores 1 with itself
		bd, _ := a.EstimatedBirthDate()
		dd, _ := a.EstimatedDeathDate()
		hasName := false
		for _, nm := range a.Names() {
			if c12Clean(nm.String()) != "" {
				hasName = true
			}
		}
		if hasName && bd != nil && dd != nil && bd.IsValid() && dd.IsValid() {
			c.Count("identity-checks", 1)
			if v := a.Similarity(a, opts); math.Abs(v-1) > c12Tol {
				c.Violation("identity:IndividualNode.Similarity", fmt.Sprintf("%s vs itself = %v, want 1 (options %s)\n%s", a.Pointer(), v, opts, a.GEDCOMString(0)), pl)
			}
		}
		if ta := twin[a.Pointer()]; ta != nil {
			c.Count("same-object-vs-equal-copy", 1)
			if self, cp := a.Similarity(a, opts), a.Similarity(ta, opts); math.Abs(self-cp) > c12Tol {
				c.Violation("same-object-vs-equal-copy:IndividualNode.Similarity", fmt.Sprintf("%s scores %.12f with itself but %.12f with an equal individual decoded from the same text", a.Pointer(), self, cp), pl)
			}
			ss, sc := a.SurroundingSimilarity(a, opts, true), a.SurroundingSimilarity(ta, opts, true)
			if math.Abs(ss.WeightedSimilarity()-sc.WeightedSimilarity()) > c12Tol || math.Abs(ss.ParentsSimilarity-sc.ParentsSimilarity) > c12Tol {
				c.Violation("same-object-vs-equal-copy:SurroundingSimilarity", fmt.Sprintf("%s: surrounding similarity with itself %.12f (parents %.6f) but with an equal individual decoded from the same text %.12f (parents %.6f)", a.Pointer(), ss.WeightedSimilarity(), ss.ParentsSimilarity, sc.WeightedSimilarity(), sc.ParentsSimilarity), pl)
			}
		}
		c.Count("neutral-checks", 2)
		if v := a.Similarity(nilInd, opts); v != 0.5 {
			c.Violation("neutral:IndividualNode.Similarity", fmt.Sprintf("individual vs missing individual = %v", v), pl)
		}
		if v := nilInd.Similarity(a, opts); v != 0.5 {
			c.Violation("neutral:IndividualNode.Similarity", fmt.Sprintf("missing individual vs individual = %v", v), pl)
		}
	}
	// lists
	for k := 0; k < 40; k++ {
		la, lb := c12SubList(r, inds), c12SubList(r, inds)
		c.Count("list-pairs", 1)
		what := fmt.Sprintf("%v vs %v", c12Ptrs(la), c12Ptrs(lb))
		chk("IndividualNodes.Similarity", la.Similarity(lb, opts), lb.Similarity(la, opts), what)
		if len(la) == 0 != (len(lb) == 0) {
			c.Count("neutral-checks", 1)
			if v := la.Similarity(lb, opts); v != 0.5 {
				c.Violation("neutral:IndividualNodes.Similarity", fmt.Sprintf("empty list vs non-empty list = %v, want 0.5", v), pl)
			}
		}
	}
	// groups of indistinguishable records on both sides, and a list against itself / a permutation of itself
	groups := map[string]gedcom.IndividualNodes{}
	for _, x := range inds {
		key := ""
		for _, n := range x.Nodes() {
			switch n.Tag().Tag() {
			case "NAME", "BIRT", "DEAT", "BAPM", "BURI":
				key += n.GEDCOMString(0)
			}
		}
		groups[key] = append(groups[key], x)
	}
	for _, grp := range groups {
		if len(grp) < 2 {
			continue
		}
		for k := 0; k < 6; k++ {
			la := append(gedcom.IndividualNodes{}, grp[:1+r.Intn(len(grp))]...)
			lb := append(gedcom.IndividualNodes{}, grp[r.Intn(len(grp)):]...)
			la = append(la, c12SubList(r, inds)...)
			lb = append(lb, c12SubList(r, inds)...)
			la, lb = c12Dedup(la), c12Dedup(lb)
			c.Count("list-pairs", 1)
			c.Count("list-pairs-with-indistinguishable-records", 1)
			chk("IndividualNodes.Similarity", la.Similarity(lb, opts), lb.Similarity(la, opts), fmt.Sprintf("%v vs %v", c12Ptrs(la), c12Ptrs(lb)))
		}
	}
	for k := 0; k < 10; k++ {
		l := c12Dedup(c12SubList(r, inds))
		full := len(l) > 0
		for _, a := range l {
			bd, _ := a.EstimatedBirthDate()
			dd, _ := a.EstimatedDeathDate()
			hasName := false
			for _, nm := range a.Names() {
				if c12Clean(nm.String()) != "" {
					hasName = true
				}
			}
			if !(hasName && bd != nil && dd != nil && bd.IsValid() && dd.IsValid()) {
				full = false
			}
		}
		if !full || opts.MinimumSimilarity > 1 {
			continue
		}
		// the permutation is taken from a second decode of the same text, so the
		// two operands are equal in content but share no node object
		perm := gedcom.IndividualNodes{}
		for _, q := range r.Perm(len(l)) {
			if tw := twin[l[q].Pointer()]; tw != nil {
				perm = append(perm, tw)
			}
		}
		if len(perm) != len(l) {
			continue
		}
		c.Count("identity-checks", 1)
		c.Count("list-identity-checks", 1)
		if v := l.Similarity(perm, opts); math.Abs(v-1) > c12Tol {
			c.Violation("identity:IndividualNodes.Similarity", fmt.Sprintf("list %v vs its permutation %v = %v, want 1 (every member has a name and both dates; options %s)", c12Ptrs(l), c12Ptrs(perm), v, opts), pl)
		}
	}
	// families, husbands, wives
	var nilH *gedcom.HusbandNode
	var nilW *gedcom.WifeNode
	for x := 0; x < len(fams); x++ {
		for y := x; y < len(fams); y++ {
			a, b := fams[x], fams[y]
			c.Count("family-pairs", 1)
			what := fmt.Sprintf("%s vs %s", a.Pointer(), b.Pointer())
			chk("FamilyNode.Similarity", a.Similarity(b, 0, opts), b.Similarity(a, 0, opts), what)
			chk("HusbandNode.Similarity", a.Husband().Similarity(b.Husband(), opts), b.Husband().Similarity(a.Husband(), opts), what)
			chk("WifeNode.Similarity", a.Wife().Similarity(b.Wife(), opts), b.Wife().Similarity(a.Wife(), opts), what)
		}
		// The score of a family with itself must be what it is with an equal
		// family from a second decode of the same text (siblings are compared
		// through the very same parents object), and a family in which nobody
		// is known is all "missing information".
		if tf := twinFam[fams[x].Pointer()]; tf != nil {
			a := fams[x]
			c.Count("same-object-vs-equal-copy", 1)
			self, cp := a.Similarity(a, 0, opts), a.Similarity(tf, 0, opts)
			if math.Abs(self-cp) > c12Tol {
				c.Violation("same-object-vs-equal-copy:FamilyNode.Similarity", fmt.Sprintf("family %s scores %.12f with itself but %.12f with an equal family decoded from the same text (options %s)\n%s", a.Pointer(), self, cp, opts, a.GEDCOMString(0)), pl)
			}
			if a.Husband() == nil && a.Wife() == nil {
				c.Count("neutral-checks", 1)
				if self != 0.5 {
					c.Violation("neutral:FamilyNode.Similarity", fmt.Sprintf("family %s has neither husband nor wife but scores %v with itself, want the neutral 0.5", a.Pointer(), self), pl)
				}
			}
		}
		if h := fams[x].Husband(); h != nil {
			c.Count("neutral-checks", 1)
			if v := h.Similarity(nilH, opts); v != 0.5 {
				c.Violation("neutral:HusbandNode.Similarity", fmt.Sprintf("husband vs missing husband = %v", v), pl)
			}
		}
		if w := fams[x].Wife(); w != nil {
			c.Count("neutral-checks", 1)
			if v := nilW.Similarity(w, opts); v != 0.5 {
				c.Violation("neutral:WifeNode.Similarity", fmt.Sprintf("missing wife vs wife = %v", v), pl)
			}
		}
	}
	// Questions, an edit, questions again. Every score has been asked by now
	// (whatever is remembered on the individuals is there); then one of the two
	// gets a name of the other, a birth or a death date through the API, and
	// the scores are asked again. They must be the scores of the records as
	// they now read: the ones a fresh decode of the document's text gives.
	if li := doc.Individuals(); len(li) >= 2 {
		for k := 0; k < 4; k++ {
			a, b := li[r.Intn(len(li))], li[r.Intn(len(li))]
			if a == b {
				continue
			}
			_ = a.Similarity(b, opts)
			edit := "AddName"
			switch {
			case k%3 == 0 && len(b.Names()) > 0:
				a.AddName(b.Names()[0].Value())
			case k%3 == 1:
				edit = "AddBirthDate"
				a.AddBirthDate(fmt.Sprintf("%d Mar %d", r.Range(1, 28), r.Range(1700, 1990)))
			default:
				edit = "AddName(new)"
				a.AddName("Added /Later/")
			}
			c.Count("scores-asked-again-after-an-edit", 1)
			fresh, err := gedcom.NewDocumentFromString(doc.String())
			if err != nil {
				break
			}
			fi := fresh.Individuals()
			var fa, fb *gedcom.IndividualNode
			for q, x := range li {
				if x == a {
					fa = fi[q]
				}
				if x == b {
					fb = fi[q]
				}
			}
			if fa == nil || fb == nil {
				break
			}
			live := []float64{a.Similarity(b, opts), b.Similarity(a, opts), gedcom.IndividualNodes{a}.Similarity(gedcom.IndividualNodes{b}, opts), a.SurroundingSimilarity(b, opts, false).WeightedSimilarity()}
			want := []float64{fa.Similarity(fb, opts), fb.Similarity(fa, opts), gedcom.IndividualNodes{fa}.Similarity(gedcom.IndividualNodes{fb}, opts), fa.SurroundingSimilarity(fb, opts, false).WeightedSimilarity()}
			for q, fn := range []string{"IndividualNode.Similarity", "IndividualNode.Similarity(swapped)", "IndividualNodes.Similarity", "SurroundingSimilarity.Weighted"} {
				if math.Abs(live[q]-want[q]) > c12Tol {
					c.Violation("stale-after-edit:"+fn, fmt.Sprintf("%s of %s and %s was asked, then %s was called on %s, then it was asked again: %v; a fresh decode of the document as it now reads gives %v (options %s)", fn, a.Pointer(), b.Pointer(), edit, a.Pointer(), live[q], want[q], opts), map[string]interface{}{"gedcom_after_the_edit": doc.String(), "options": opts.String()})
					break
				}
			}
		}
	}
	if c.WantSample("people") {
		c.Sample("people", map[string]interface{}{"individuals": len(inds), "families": len(fams), "options": opts.String(), "first": clip(inds[0].GEDCOMString(0), 200)})
	}
}

func c12SubList(r *fw.Rand, inds gedcom.IndividualNodes) gedcom.IndividualNodes {
	n := r.Intn(6)
	if r.Chance(1, 8) {
		n = 0
	}
	var l gedcom.IndividualNodes
	for k := 0; k < n; k++ {
		l = append(l, inds[r.Intn(len(inds))])
	}
	return l
}

func c12Ptrs(l gedcom.IndividualNodes) []string {
	var o []string
	for _, x := range l {
		o = append(o, x.Pointer())
	}
	return o
}

func c12Dedup(l gedcom.IndividualNodes) gedcom.IndividualNodes {
	seen := map[*gedcom.IndividualNode]bool{}
	var o gedcom.IndividualNodes
	for _, x := range l {
		if !seen[x] {
			seen[x] = true
			o = append(o, x)
		}
	}
	return o
}
