package props

import (
	"bytes"
	"fmt"
	"os"
	"os/exec"
	"path/filepath"
	"regexp"
	"runtime"
	"sort"
	"strings"
	"sync"
	"time"

	"github.com/elliotchance/gedcom/v39"

	"verif/fw"
	"verif/gen"
)

// C11 — matching individuals is a valid one-to-one matching on any schedule.
// The worker is the -race build; race reports are collected by the supervisor
// from the GORACE logs of each batch.

type c11Event struct {
	point string
	gid   int64
	l, r  *gedcom.IndividualNode
}

type c11Log struct {
	mu      sync.Mutex
	events  []c11Event
	r       *fw.Rand
	perturb bool
}

func c11Gid() int64 {
	var buf [64]byte
	n := runtime.Stack(buf[:], false)
	// "goroutine 123 [running]:"
	var id int64
	for _, ch := range buf[len("goroutine "):n] {
		if ch < '0' || ch > '9' {
			break
		}
		id = id*10 + int64(ch-'0')
	}
	return id
}

func (l *c11Log) hook(point string, a, b interface{}) {
	if !strings.HasPrefix(point, "cmp.") {
		return
	}
	ev := c11Event{point: point, gid: c11Gid()}
	if x, ok := a.(*gedcom.IndividualNode); ok {
		ev.l = x
	}
	if x, ok := b.(*gedcom.IndividualNode); ok {
		ev.r = x
	}
	l.mu.Lock()
	l.events = append(l.events, ev)
	var act int
	if l.perturb {
		act = l.r.Intn(12)
	}
	var d time.Duration
	if act == 1 {
		d = time.Duration(10+l.r.Intn(300)) * time.Microsecond
	}
	l.mu.Unlock()
	switch act {
	case 0:
		runtime.Gosched()
	case 1:
		time.Sleep(d)
	}
}

func c11N(tier string) int {
	if tier == "thorough" {
		return 3000
	}
	return 160
}

var c11Scenarios = []string{"shared-pointers", "disjoint-pointers", "shared-unique-ids", "duplicated-unique-ids", "identical-twins", "empty-side", "rotated-pointers", "unique-ids-on-different-people", "rotated-pointers-only", "perfect-twins"}

func init() {
	fw.Register(&fw.Prop{
		ID:         "C11",
		CaseCPU:    3600,
		Title:      "Matching individuals is a valid one-to-one matching on any schedule",
		Race:       true,
		NeedsCLI:   true,
		MaxWorkers: 8,
		Cases:      func(tier string, seed uint64) int { return c11N(tier) },
		Run:        c11Run,
		Batch:      func(tier string, n int) int { return 4 },
		Rule: "pairs of individual lists from generated family graphs (shared / disjoint / rotated pointers, shared and duplicated unique ids, unique ids shared by unrelated people, identical twins, an empty side, 0..30 people) compared by the real pipeline under the race detector with Jobs in {0,1,2,3,8,16}, GOMAXPROCS in {1,2,16}, thresholds incl. 0 and 1, each on freshly decoded documents (cold caches) and repeated under 3 seeded schedule perturbations injected at the hook points (Gosched / 10-300 us sleeps between pipeline stages). " +
			"monitors: result checker (every individual exactly once, no empty result, every pair justified by threshold, unique id or trusted pointer), differential against the Jobs=1 result when no two candidate pairs tie, offline event-log checker (multiset of sends = begins = ends = collects, no pair sent twice, winners were collected), race-detector logs (library run and 'gedcom diff -jobs N' built with -race). non-trivial = both sides non-empty with at least one matched pair; distinct by pair text + Jobs + GOMAXPROCS; distinct interleavings = distinct worker orders of process.begin events",
		Floors: func(a *fw.Agg, tier string) []string {
			var f []string
			for _, k := range []string{"compares", "events", "pairs-justified", "differential-compared", "cli-diff-runs"} {
				if a.Counters[k] < 10 {
					f = append(f, fmt.Sprintf("%s=%d < 10", k, a.Counters[k]))
				}
			}
			if n := a.ClassCount("interleaving"); n < 20 {
				f = append(f, fmt.Sprintf("only %d distinct interleavings observed (< 20): inconclusive for the schedule quantifier", n))
			}
			return f
		},
		Assumptions: []string{
			"the race detector reports races on the interleavings that happened; perturbation widens but does not enumerate them",
			"when two candidate pairs above the threshold tie on score (or unique ids are duplicated) the parallel result is not required to equal the sequential one",
		},
	})
}

// c11BigCase: scenario shared-pointers (i % 10 == 0); Jobs and GOMAXPROCS are set for it below.
const c11BigCase = 150

type c11Key struct{ l, r string }

func c11Result(comps gedcom.IndividualComparisons) []string {
	var out []string
	for _, c := range comps {
		l, r := "-", "-"
		if c.Left != nil {
			l = c.Left.Pointer()
		}
		if c.Right != nil {
			r = c.Right.Pointer()
		}
		score := ""
		if c.Left != nil && c.Right != nil && c.Similarity != nil {
			score = fmt.Sprintf("%.9f", c.Similarity.WeightedSimilarity())
		}
		out = append(out, l+"~"+r+"~"+score)
	}
	sort.Strings(out)
	return out
}

func c11SeveralIDs(l gedcom.IndividualNodes) bool {
	for _, a := range l {
		if a.UniqueIdentifiers().Len() > 1 {
			return true
		}
	}
	return false
}

func c11Run(c *fw.Ctx, i int) {
	r := c.R
	scen := c11Scenarios[i%len(c11Scenarios)]
	c.Class("scenario", scen)
	n := r.Range(1, 30)
	if r.Chance(1, 3) {
		n = r.Range(1, 8)
	}
	// one pair per run is large: more certain matches than the channels of the
	// pipeline hold (1,000)
	if i == c11BigCase {
		n = 1050
	}
	base := gen.NewFG(r, gen.FGOpts{People: n, MultiNames: true, MissingBits: true, NoLiving: true})
	var right *gen.FG
	switch scen {
	case "shared-pointers":
		right = c10EditedCopy(r, base, false, r.Bool())
	case "disjoint-pointers":
		right = c10EditedCopy(r, base, true, r.Bool())
	case "shared-unique-ids", "duplicated-unique-ids":
		right = c10EditedCopy(r, base, true, false)
		for k := range base.People {
			if k%2 == 0 && k < len(right.People) {
				uid := fmt.Sprintf("%032X", uint64(k+1)*0x9E3779B97F4A7C15)[:32]
				base.People[k].UIDs, right.People[k].UIDs = []string{uid}, []string{uid}
			}
		}
		if scen == "duplicated-unique-ids" && len(base.People) >= 3 {
			switch r.Intn(3) {
			case 0, 1:
				base.People[1].UIDs = base.People[0].UIDs
				if len(right.People) >= 3 && r.Bool() {
					right.People[2].UIDs = right.People[0].UIDs
				}
			}
			// a merged record that kept the identifiers of both of its
			// sources, which are still two records on the other side
			if len(right.People) >= 3 && r.Chance(2, 3) {
				one, other := base, right
				if r.Bool() {
					one, other = right, base
				}
				if len(one.People) >= 1 && len(other.People) >= 3 {
					u1, u2 := "AAAA1111BBBB2222CCCC3333DDDD4444", "EEEE5555FFFF6666AAAA7777BBBB8888"
					a := r.Intn(len(one.People))
					b := r.Intn(len(other.People))
					d := (b + 1 + r.Intn(len(other.People)-1)) % len(other.People)
					one.People[a].UIDs = []string{u1, u2}
					if r.Bool() {
						one.People[a].UIDs = []string{u2, u1}
					}
					other.People[b].UIDs, other.People[d].UIDs = []string{u1}, []string{u2}
				}
			}
		}
	case "identical-twins":
		right = c10EditedCopy(r, base, true, false)
		for k := 0; k < 2 && len(base.People) > 0; k++ {
			base.ClonePerson(base.People[r.Intn(len(base.People))], fmt.Sprintf("T%d", k))
			if len(right.People) > 0 {
				right.ClonePerson(right.People[r.Intn(len(right.People))], fmt.Sprintf("U%d", k))
			}
		}
	case "empty-side":
		right = &gen.FG{}
		if r.Bool() {
			base, right = right, base
		}
	case "perfect-twins":
		// complete records (name, birth, death, both parents known): twins
		// score exactly 1 with each other's copies, and nothing but the scores
		// identifies anybody (other pointers on the right, no unique ids)
		base = gen.NewFG(r, gen.FGOpts{People: r.Range(4, 14), ExactDates: true, NoLiving: true})
		var kids []*gen.Person
		for _, p := range base.People {
			if len(p.FamC) > 0 && !p.NoName && p.Ev("BIRT") != nil && p.Ev("DEAT") != nil {
				kids = append(kids, p)
			}
		}
		for k := 0; k < 2 && len(kids) > 0; k++ {
			p := kids[r.Intn(len(kids))]
			tw := base.ClonePerson(p, fmt.Sprintf("T%d", k))
			tw.FamC = append([]int{}, p.FamC...)
			for _, fi := range p.FamC {
				base.Families[fi].Kids = append(base.Families[fi].Kids, tw.Idx)
			}
		}
		right = c10EditedCopy(r, base, true, false)
	case "unique-ids-on-different-people":
		// the k-th people of two unrelated documents carry the same unique id:
		// a certain match that the similarity matrix would never find again
		right = gen.NewFG(r, gen.FGOpts{People: r.Range(1, 30), MultiNames: true, MissingBits: true, NoLiving: true, PtrPrefix: "J", TokenBase: 7000})
		for k := range base.People {
			if k < len(right.People) && k%3 != 2 {
				uid := fmt.Sprintf("%032X", uint64(k+1)*0x9E3779B97F4A7C15)[:32]
				base.People[k].UIDs, right.People[k].UIDs = []string{uid}, []string{uid}
			}
		}
	case "rotated-pointers-only":
		// different people behind every pointer and nothing else to go by: with
		// PreferPointerAbove = 0 every match is a pointer match
		right = c10EditedCopy(r, base, false, false)
		m := len(right.People)
		for k, p := range right.People {
			p.Ptr = base.People[(k+1)%m].Ptr
		}
	case "rotated-pointers":
		right = c10EditedCopy(r, base, false, false)
		m := len(right.People)
		for k, p := range right.People {
			p.Ptr = base.People[(k+1)%m].Ptr
		}
		// half of the people are identified by a unique id: the certain-match stages meet
		for k := range base.People {
			if k%2 == 0 && k < len(right.People) {
				uid := fmt.Sprintf("%032X", uint64(k+1)*0x9E3779B97F4A7C15)[:32]
				base.People[k].UIDs, right.People[k].UIDs = []string{uid}, []string{uid}
			}
		}
	}
	base.Head, right.Head = false, false
	lt, rt := base.Text(), right.Text()
	jobs := []int{0, 1, 2, 3, 8, 16}[(i/len(c11Scenarios))%6]
	procs := []int{1, 2, 16}[(i/(len(c11Scenarios)*6))%3]
	if i%5 == 0 {
		procs = []int{1, 2, 16}[r.Intn(3)]
	}
	if i == c11BigCase {
		jobs, procs = 8, 16
	}
	sim := gedcom.NewSimilarityOptions()
	conf := "default"
	pick := r.Intn(6)
	if (scen == "rotated-pointers" && r.Bool()) || (scen == "rotated-pointers-only" && r.Chance(3, 4)) {
		pick = 2
	}
	if i == c11BigCase {
		pick = 5 // default thresholds: a matrix of a million pairs at threshold 0 is not what this case is for
	}
	switch pick {
	case 0:
		sim.MinimumWeightedSimilarity, sim.MinimumSimilarity = 0, 0
		conf = "threshold-0"
	case 1:
		sim.MinimumWeightedSimilarity, sim.MinimumSimilarity = 1, 1
		conf = "threshold-1"
	case 2:
		sim.PreferPointerAbove = 0
		conf = "prefer-pointer-0"
	case 3:
		sim.PreferPointerAbove = 1
		conf = "prefer-pointer-1"
	}
	c.Class("configuration", conf)
	payload := map[string]interface{}{"left": lt, "right": rt, "jobs": jobs, "gomaxprocs": procs, "configuration": conf, "scenario": scen}
	decode := func() (gedcom.IndividualNodes, gedcom.IndividualNodes, bool) {
		ld, e1 := gedcom.NewDocumentFromString(lt)
		rd, e2 := gedcom.NewDocumentFromString(rt)
		if e1 != nil || e2 != nil {
			c.HarnessError(fmt.Sprintf("C11 inputs do not decode: %v %v", e1, e2))
			return nil, nil, false
		}
		// now and then the lists are parts of their documents (a branch, a
		// filtered list): everybody else in the documents is none of the
		// comparison's business
		part := func(l gedcom.IndividualNodes, which int) gedcom.IndividualNodes {
			if which == 0 || i == c11BigCase {
				return l
			}
			out := gedcom.IndividualNodes{}
			for k, x := range l {
				if (which == 1 && k%2 == 0) || (which == 2 && k < (len(l)+1)/2) {
					out = append(out, x)
				}
			}
			return out
		}
		return part(ld.Individuals(), []int{0, 0, 0, 0, 1, 0, 0}[i%7]), part(rd.Individuals(), []int{0, 0, 0, 1, 2, 0, 2}[i%7]), true
	}
	prev := runtime.GOMAXPROCS(procs)
	defer runtime.GOMAXPROCS(prev)

	// sequential reference (no hook perturbation)
	gedcom.VerifSetHook(nil)
	sl, sr, ok := decode()
	if !ok {
		return
	}
	so := gedcom.NewIndividualNodesCompareOptions()
	so.SimilarityOptions = sim
	so.Jobs = 1
	seq := c11Result(sl.Compare(sr, so))

	// ties? (full score matrix as the pipeline computes it; not for the large
	// pair, where a million pairs would have to be scored: no differential there)
	ties := i == c11BigCase
	if !ties {
		tl, tr, _ := decode()
		seen := map[string]bool{}
		uids := map[string]int{}
		for _, a := range tl {
			for _, u := range a.UniqueIdentifiers().Strings() {
				uids["L"+u]++
			}
		}
		for _, b := range tr {
			for _, u := range b.UniqueIdentifiers().Strings() {
				uids["R"+u]++
			}
		}
		for _, v := range uids {
			if v > 1 {
				ties = true
			}
		}
		// somebody with several identifiers can be claimed through any of them
		if c11SeveralIDs(tl) || c11SeveralIDs(tr) {
			ties = true
		}
		// a tie matters when two candidate pairs with the same score compete for an individual
		for ai, a := range tl {
			for bi, b := range tr {
				ws := a.SurroundingSimilarity(b, sim, false).WeightedSimilarity()
				if ws >= sim.MinimumWeightedSimilarity {
					k := fmt.Sprintf("%.12f", ws)
					if seen[fmt.Sprint("L", ai, k)] || seen[fmt.Sprint("R", bi, k)] {
						ties = true
					}
					seen[fmt.Sprint("L", ai, k)] = true
					seen[fmt.Sprint("R", bi, k)] = true
				}
			}
		}
	}

	reps := 3
	if i == c11BigCase {
		reps = 1
		c.Count("large-pairs", 1)
	}
	for rep := 0; rep < reps; rep++ {
		l, rr, ok := decode()
		if !ok {
			return
		}
		log := &c11Log{r: fw.NewRand(fw.Mix(c.Seed, uint64(i), uint64(rep))), perturb: rep > 0}
		gedcom.VerifSetHook(log.hook)
		o := gedcom.NewIndividualNodesCompareOptions()
		o.SimilarityOptions = sim
		o.Jobs = jobs
		var comps gedcom.IndividualComparisons
		// Compare must return: whether it is stuck is read off the goroutines
		// (every goroutine of the library parked), not off the clock
		pi, parked := fw.Guard(func() { comps = l.Compare(rr, o) })
		if pi != nil {
			gedcom.VerifSetHook(nil)
			c.Violation("compare-panics:"+pi.Sig(), "IndividualNodes.Compare panicked: "+pi.Msg, payload)
			return
		}
		if parked != "" {
			gedcom.VerifSetHook(nil)
			c.Violation("compare-does-not-return:deadlock@"+fw.InnermostRepoFrame(parked), fmt.Sprintf("IndividualNodes.Compare (jobs=%d, %d x %d individuals) never returns: every goroutine of the library is parked\n%s", jobs, len(l), len(rr), clip(parked, 2500)), payload)
			return
		}
		gedcom.VerifSetHook(nil)
		c.Count("compares", 1)
		log.mu.Lock()
		events := append([]c11Event{}, log.events...)
		log.mu.Unlock()
		c.Count("events", int64(len(events)))

		// ---- result checker ----
		leftSeen, rightSeen := map[*gedcom.IndividualNode]int{}, map[*gedcom.IndividualNode]int{}
		matched := 0
		for _, cmp := range comps {
			if cmp.Left == nil && cmp.Right == nil {
				c.Violation("empty-result", "a comparison has neither a left nor a right individual", payload)
			}
			if cmp.Left != nil {
				leftSeen[cmp.Left]++
			}
			if cmp.Right != nil {
				rightSeen[cmp.Right]++
			}
			if cmp.Left != nil && cmp.Right != nil {
				matched++
				a, b := cmp.Left, cmp.Right
				ws := a.SurroundingSimilarity(b, sim, false).WeightedSimilarity()
				wsf := a.SurroundingSimilarity(b, sim, true).WeightedSimilarity()
				just := ws >= sim.MinimumWeightedSimilarity || a.UniqueIdentifiers().Intersects(b.UniqueIdentifiers()) || (a.Pointer() == b.Pointer() && wsf >= sim.PreferPointerAbove)
				c.Count("pairs-justified", 1)
				if !just {
					c.Violation("unjustified-pair", fmt.Sprintf("%s was matched with %s but their weighted similarity %.4f is below %.4f, they share no unique identifier and no trusted pointer (jobs=%d)", a.Pointer(), b.Pointer(), ws, sim.MinimumWeightedSimilarity, jobs), payload)
				}
			}
		}
		inL, inR := map[*gedcom.IndividualNode]bool{}, map[*gedcom.IndividualNode]bool{}
		for _, a := range l {
			inL[a] = true
		}
		for _, b := range rr {
			inR[b] = true
		}
		for a := range leftSeen {
			if !inL[a] {
				c.Violation("individual-not-in-the-compared-list:left", fmt.Sprintf("a result holds left individual %s, which is not in the list that was compared (jobs=%d)", a.Pointer(), jobs), payload)
				break
			}
		}
		for b := range rightSeen {
			if !inR[b] {
				c.Violation("individual-not-in-the-compared-list:right", fmt.Sprintf("a result holds right individual %s, which is not in the list that was compared (the list is a part of its document; jobs=%d)", b.Pointer(), jobs), payload)
				break
			}
		}
		for _, a := range l {
			if leftSeen[a] != 1 {
				cause := "other"
				if a.UniqueIdentifiers().Len() > 0 {
					cause = "has-unique-id"
				}
				c.Violation(fmt.Sprintf("left-in-%d-results:%s", min(leftSeen[a], 2), cause), fmt.Sprintf("left individual %s appears in %d results (jobs=%d, GOMAXPROCS=%d)", a.Pointer(), leftSeen[a], jobs, procs), payload)
			}
		}
		for _, b := range rr {
			if rightSeen[b] != 1 {
				cause := "other"
				if b.UniqueIdentifiers().Len() > 0 {
					cause = "has-unique-id"
				}
				c.Violation(fmt.Sprintf("right-in-%d-results:%s", min(rightSeen[b], 2), cause), fmt.Sprintf("right individual %s appears in %d results (jobs=%d, GOMAXPROCS=%d)", b.Pointer(), rightSeen[b], jobs, procs), payload)
			}
		}
		if len(l) > 0 && len(rr) > 0 && matched > 0 {
			c.NontrivialStr(fmt.Sprint(lt, "\x00", rt, jobs, procs))
		}

		// ---- differential against the sequential run ----
		if !ties {
			c.Count("differential-compared", 1)
			if got := c11Result(comps); strings.Join(got, "|") != strings.Join(seq, "|") {
				c.Violation("differs-from-sequential", fmt.Sprintf("with jobs=%d GOMAXPROCS=%d (repetition %d) the result set differs from the Jobs=1 result although no two candidate pairs tie\nparallel:   %v\nsequential: %v", jobs, procs, rep, got, seq), payload)
			}
		} else {
			c.Count("differential-skipped-ties", 1)
		}

		// ---- event log ----
		type pr struct{ l, r *gedcom.IndividualNode }
		count := map[string]map[pr]int{}
		var order []string
		for _, e := range events {
			pt := e.point
			if strings.HasSuffix(pt, ".send") {
				pt = "send"
			}
			if count[pt] == nil {
				count[pt] = map[pr]int{}
			}
			count[pt][pr{e.l, e.r}]++
			if e.point == "cmp.process.begin" {
				order = append(order, fmt.Sprint(e.gid))
			}
		}
		for p, nsent := range count["send"] {
			if nsent > 1 {
				c.Violation("pair-sent-twice", fmt.Sprintf("the pair %s/%s was sent to the workers %d times", c11Ptr(p.l), c11Ptr(p.r), nsent), payload)
			}
			for _, stage := range []string{"cmp.process.begin", "cmp.process.end", "cmp.collect"} {
				if count[stage][p] != nsent {
					c.Violation("pipeline-conservation:"+stage, fmt.Sprintf("pair %s/%s: sent %d times but %s saw it %d times", c11Ptr(p.l), c11Ptr(p.r), nsent, stage, count[stage][p]), payload)
				}
			}
		}
		for _, stage := range []string{"cmp.process.begin", "cmp.process.end", "cmp.collect"} {
			for p, k := range count[stage] {
				if count["send"][p] == 0 {
					c.Violation("pipeline-conservation:unsent-pair", fmt.Sprintf("%s saw the pair %s/%s %d times but it was never sent", stage, c11Ptr(p.l), c11Ptr(p.r), k), payload)
				}
			}
		}
		for p := range count["cmp.winner"] {
			if p.l != nil && p.r != nil && count["cmp.collect"][p] == 0 {
				c.Violation("winner-not-collected", fmt.Sprintf("winner %s/%s was never collected", c11Ptr(p.l), c11Ptr(p.r)), payload)
			}
		}
		// normalise goroutine ids to first-appearance indices: the interleaving is the worker order
		idx := map[string]int{}
		var norm []string
		for _, g := range order {
			if _, ok := idx[g]; !ok {
				idx[g] = len(idx)
			}
			norm = append(norm, fmt.Sprint(idx[g]))
		}
		if len(idx) > 1 {
			c.Class("interleaving", fmt.Sprintf("%x", fw.HashStr(strings.Join(norm, ","))))
		}
	}

	// ---- the options of the real CLI: same matching as the library with the same values ----
	if bin := os.Getenv("VERIF_GEDCOM_BIN"); bin != "" && (i+i/len(c11Scenarios))%8 == 2 {
		c11CLIOptions(c, i, bin)
	}

	// ---- the real CLI built with the race detector ----
	if bin := os.Getenv("VERIF_GEDCOM_BIN"); bin != "" && (i+i/len(c11Scenarios))%4 == 0 && i != c11BigCase {
		dir := os.Getenv("VERIF_SCRATCH")
		if dir == "" {
			dir = os.TempDir()
		}
		pfx := filepath.Join(dir, fmt.Sprintf("c11-%d-%d", os.Getpid(), i))
		os.WriteFile(pfx+"-l.ged", []byte(lt), 0o644)
		os.WriteFile(pfx+"-r.ged", []byte(rt), 0o644)
		cj := []string{"1", "2", "4"}[(i/4)%3]
		outS, err, okRun := runCLI(c, "cli-diff", payload, append(os.Environ(), "GORACE=halt_on_error=0 exitcode=0 log_path="+pfx+".race"), 600, bin, "diff", "-left-gedcom", pfx+"-l.ged", "-right-gedcom", pfx+"-r.ged", "-output", pfx+".html", "-jobs", cj)
		var buf bytes.Buffer
		buf.WriteString(outS)
		c.Count("cli-diff-runs", 1)
		c.Class("cli-diff-scenario", scen)
		if len(base.People) == 0 || len(right.People) == 0 {
			c.Count("cli-diff-runs-with-an-empty-side", 1)
		}
		if !okRun {
			return
		}
		if CrashedGo(buf.String(), err) {
			c.Violation("cli-diff-crash", fmt.Sprintf("gedcom diff -jobs %s crashed:\n%s", cj, clip(buf.String(), 1500)), payload)
		} else if err != nil {
			if ee, ok := err.(*exec.ExitError); !ok || ee.ExitCode() != 66 {
				c.Violation("cli-diff-failed", fmt.Sprintf("gedcom diff -jobs %s failed: %v\n%s", cj, err, clip(buf.String(), 800)), payload)
			}
		}
		logs, _ := filepath.Glob(pfx + ".race.*")
		for _, lf := range logs {
			data, _ := os.ReadFile(lf)
			for _, rep := range fw.ParseRaceLog(string(data)) {
				c.Count("cli-race-reports", 1)
				c.Violation("cli-diff-"+rep.Sig(), fmt.Sprintf("gedcom diff -jobs %s (built with -race):\n%s", cj, clip(rep.Text, 2500)), payload)
			}
			os.Remove(lf)
		}
		if out, err := os.ReadFile(pfx + ".html"); err == nil {
			// with -show all every individual must be in the report
			for _, p := range append(append([]*gen.Person{}, base.People...), right.People...) {
				if !p.NoName && p.Given != "" && !bytes.Contains(out, []byte(strings.Fields(p.Given)[0])) {
					c.Violation("cli-diff-missing-individual", fmt.Sprintf("the diff report does not mention %s (%s)", p.Ptr, p.FullName()), payload)
					break
				}
			}
		}
		for _, f := range []string{"-l.ged", "-r.ged", ".html"} {
			os.Remove(pfx + f)
		}
	}
	if c.WantSample(scen) {
		c.Sample(scen, map[string]interface{}{"left_people": len(base.People), "right_people": len(right.People), "jobs": jobs, "gomaxprocs": procs, "configuration": conf, "sequential_result": seq})
	}
}

func c11Ptr(n *gedcom.IndividualNode) string {
	if n == nil {
		return "-"
	}
	return n.Pointer()
}

var (
	c11FirstTable = regexp.MustCompile(`(?s)<table.*?</table>`)
	c11Row        = regexp.MustCompile(`(?s)<tr.*?</tr>`)
	c11Cell       = regexp.MustCompile(`(?s)<td.*?</td>`)
)

// c11CLIOptions: 'gedcom diff' run with explicit -minimum-similarity,
// -minimum-weighted-similarity, -prefer-pointer-above and -jobs must pair the
// individuals as IndividualNodes.Compare does with the same values. Everybody
// has a unique given name, so the pairs can be read off the index table of the
// report (left individual, similarity, right individual).
func c11CLIOptions(c *fw.Ctx, i int, bin string) {
	r := c.R
	base := gen.NewFG(r, gen.FGOpts{People: r.Range(2, 9), UniqueTokens: true, TokenBase: 20000 + i*50%9000, ExactDates: true, NoLiving: true})
	right := c10EditedCopy(r, base, true, r.Bool())
	// blur some of the copies so that their scores spread between the thresholds
	for _, p := range right.People {
		switch r.Intn(4) {
		case 0:
			if e := p.Ev("BIRT"); e != nil {
				e.Y += r.Range(1, 3)
			}
		case 1:
			if e := p.Ev("DEAT"); e != nil {
				e.Y -= r.Range(1, 2)
			}
		case 2:
			p.Surname = p.Surname + "x"
		}
	}
	base.Head, right.Head = false, false
	lt, rt := base.Text(), right.Text()
	ms := []float64{0.5, 0.65, 0.733, 0.8, 0.9, 0.97, 1}[r.Intn(7)]
	mws := []float64{0.5, 0.65, 0.733, 0.8, 0.9, 0.97, 1}[r.Intn(7)]
	ppa := []float64{0, 0.5, 0.95, 1}[r.Intn(4)]
	jobs := []int{1, 2, 4}[r.Intn(3)]
	payload := map[string]interface{}{"left": lt, "right": rt, "minimum-similarity": ms, "minimum-weighted-similarity": mws, "prefer-pointer-above": ppa, "jobs": jobs}
	ld, e1 := gedcom.NewDocumentFromString(lt)
	rd, e2 := gedcom.NewDocumentFromString(rt)
	if e1 != nil || e2 != nil {
		c.HarnessError(fmt.Sprintf("C11 CLI inputs do not decode: %v %v", e1, e2))
		return
	}
	o := gedcom.NewIndividualNodesCompareOptions()
	o.SimilarityOptions.MinimumSimilarity = ms
	o.SimilarityOptions.MinimumWeightedSimilarity = mws
	o.SimilarityOptions.PreferPointerAbove = ppa
	o.Jobs = jobs
	given := func(n *gedcom.IndividualNode) string {
		if n == nil {
			return "-"
		}
		return strings.ToLower(strings.Fields(n.Name().String() + " -")[0])
	}
	want := map[string]bool{}
	scores := map[string]int{}
	for _, cmp := range ld.Individuals().Compare(rd.Individuals(), o) {
		want[given(cmp.Left)+"~"+given(cmp.Right)] = true
	}
	// ties between candidate pairs make the pairing a matter of order: no comparison then
	for _, a := range ld.Individuals() {
		for _, b := range rd.Individuals() {
			ws := a.SurroundingSimilarity(b, o.SimilarityOptions, false).WeightedSimilarity()
			if ws >= mws {
				scores[fmt.Sprintf("L%s:%.9f", a.Pointer(), ws)]++
				scores[fmt.Sprintf("R%s:%.9f", b.Pointer(), ws)]++
			}
		}
	}
	if c11SeveralIDs(ld.Individuals()) || c11SeveralIDs(rd.Individuals()) {
		scores["several-ids"] = 2
	}
	for _, n := range scores {
		if n > 1 {
			c.Count("cli-options-skipped-ties", 1)
			return
		}
	}
	dir := os.Getenv("VERIF_SCRATCH")
	if dir == "" {
		dir = os.TempDir()
	}
	pfx := filepath.Join(dir, fmt.Sprintf("c11o-%d-%d", os.Getpid(), i))
	os.WriteFile(pfx+"-l.ged", []byte(lt), 0o644)
	os.WriteFile(pfx+"-r.ged", []byte(rt), 0o644)
	defer func() {
		for _, f := range []string{"-l.ged", "-r.ged", ".html"} {
			os.Remove(pfx + f)
		}
		logs, _ := filepath.Glob(pfx + ".race.*")
		for _, lf := range logs {
			os.Remove(lf)
		}
	}()
	args := []string{"diff", "-left-gedcom", pfx + "-l.ged", "-right-gedcom", pfx + "-r.ged", "-output", pfx + ".html", "-show", "all", "-jobs", fmt.Sprint(jobs),
		"-minimum-similarity", fmt.Sprint(ms), "-minimum-weighted-similarity", fmt.Sprint(mws), "-prefer-pointer-above", fmt.Sprint(ppa)}
	out, err, okRun := runCLI(c, "cli-diff", payload, append(os.Environ(), "GORACE=halt_on_error=0 exitcode=0 log_path="+pfx+".race"), 600, bin, args...)
	if !okRun {
		return
	}
	if err != nil {
		c.Violation("cli-diff-failed", fmt.Sprintf("gedcom %s failed: %v\n%s", strings.Join(args, " "), err, clip(out, 600)), payload)
		return
	}
	page, rerr := os.ReadFile(pfx + ".html")
	if rerr != nil {
		c.Violation("cli-diff-failed", "gedcom diff wrote no report", payload)
		return
	}
	table := c11FirstTable.Find(page)
	names := map[string]bool{}
	for _, p := range append(append([]*gen.Person{}, base.People...), right.People...) {
		names[strings.ToLower(strings.Fields(p.Given + " -")[0])] = true
	}
	cellName := func(cell []byte) string {
		text := strings.ToLower(string(cell))
		for n := range names {
			if strings.Contains(text, n) {
				return n
			}
		}
		return "-"
	}
	got := map[string]bool{}
	for _, row := range c11Row.FindAll(table, -1) {
		cells := c11Cell.FindAll(row, -1)
		if len(cells) != 3 {
			continue
		}
		l, rr := cellName(cells[0]), cellName(cells[2])
		if l == "-" && rr == "-" {
			continue
		}
		got[l+"~"+rr] = true
	}
	c.Count("cli-options-compared", 1)
	var missing, extra []string
	for k := range want {
		if !got[k] {
			missing = append(missing, k)
		}
	}
	for k := range got {
		if !want[k] {
			extra = append(extra, k)
		}
	}
	if len(missing)+len(extra) > 0 {
		sort.Strings(missing)
		sort.Strings(extra)
		c.Violation("cli-diff-pairs-differ-from-library", fmt.Sprintf("gedcom diff -minimum-similarity %v -minimum-weighted-similarity %v -prefer-pointer-above %v -jobs %d pairs the individuals differently from IndividualNodes.Compare with the same values (no ties)\nonly in the library result: %v\nonly in the report:         %v", ms, mws, ppa, jobs, missing, extra), payload)
	}
}
