package props

import (
	"fmt"
	"os"
	"path/filepath"
	"sort"
	"strings"

	"github.com/elliotchance/gedcom/v39"

	"verif/fw"
	"verif/gen"
	"verif/ref"
)

// C20 — warnings are reported exactly when the recorded facts warrant them.
// The ground truth is a small model with integer day numbers; the reference
// calculator below never calls a library accessor.

type c20Person struct {
	ptr, given, surname string
	sexes               []string
	birth, bapm, bapm2  int64 // day numbers; c20None = absent
	death, buri         int64
	garbage             []string // unparsable DATE values on extra events
}

const c20None = int64(-1 << 62)

type c20Family struct {
	ptr        string
	husb, wife int // -1 = none
	kids       []int
	marr       []int64
	garbage    []string
}

type c20Model struct {
	people   []*c20Person
	families []*c20Family
	headDate string
	strata   map[string]string // candidate key -> stratum label
}

func c20Date(d int64) string {
	y, m, dd := ref.Civil(d)
	return gen.ExactDate(y, m, dd)
}

func (m *c20Model) specs(r *fw.Rand, permute bool) []*gen.Spec {
	var recs []*gen.Spec
	ev := func(tag string, d int64) *gen.Spec {
		return &gen.Spec{Tag: tag, Kids: []*gen.Spec{{Tag: "DATE", Value: c20Date(d)}}}
	}
	for pi, p := range m.people {
		s := &gen.Spec{Tag: "INDI", Pointer: p.ptr}
		s.Kids = append(s.Kids, &gen.Spec{Tag: "NAME", Value: p.given + " /" + p.surname + "/"})
		for _, sx := range p.sexes {
			s.Kids = append(s.Kids, &gen.Spec{Tag: "SEX", Value: sx})
		}
		if p.birth != c20None {
			s.Kids = append(s.Kids, ev("BIRT", p.birth))
		}
		if p.bapm != c20None {
			s.Kids = append(s.Kids, ev("BAPM", p.bapm))
		}
		if p.bapm2 != c20None {
			s.Kids = append(s.Kids, ev("BAPM", p.bapm2))
		}
		if p.death != c20None {
			s.Kids = append(s.Kids, ev("DEAT", p.death))
		}
		if p.buri != c20None {
			s.Kids = append(s.Kids, ev("BURI", p.buri))
		}
		for _, g := range p.garbage {
			s.Kids = append(s.Kids, &gen.Spec{Tag: "EVEN", Value: "Something", Kids: []*gen.Spec{{Tag: "DATE", Value: g}}})
		}
		for fi, f := range m.families {
			if f.husb == pi || f.wife == pi {
				s.Kids = append(s.Kids, &gen.Spec{Tag: "FAMS", Value: "@" + f.ptr + "@"})
			}
			for _, k := range f.kids {
				if k == pi {
					s.Kids = append(s.Kids, &gen.Spec{Tag: "FAMC", Value: "@" + f.ptr + "@"})
				}
			}
			_ = fi
		}
		recs = append(recs, s)
	}
	for _, f := range m.families {
		s := &gen.Spec{Tag: "FAM", Pointer: f.ptr}
		if f.husb >= 0 {
			s.Kids = append(s.Kids, &gen.Spec{Tag: "HUSB", Value: "@" + m.people[f.husb].ptr + "@"})
		}
		if f.wife >= 0 {
			s.Kids = append(s.Kids, &gen.Spec{Tag: "WIFE", Value: "@" + m.people[f.wife].ptr + "@"})
		}
		kids := append([]int{}, f.kids...)
		if permute {
			pk := r.Perm(len(kids))
			for i, j := range pk {
				kids[i] = f.kids[j]
			}
		}
		for _, k := range kids {
			s.Kids = append(s.Kids, &gen.Spec{Tag: "CHIL", Value: "@" + m.people[k].ptr + "@"})
		}
		for _, d := range f.marr {
			s.Kids = append(s.Kids, ev("MARR", d))
		}
		for _, g := range f.garbage {
			s.Kids = append(s.Kids, &gen.Spec{Tag: "DIV", Kids: []*gen.Spec{{Tag: "DATE", Value: g}}})
		}
		recs = append(recs, s)
	}
	if permute {
		pr := r.Perm(len(recs))
		out := make([]*gen.Spec, len(recs))
		for i, j := range pr {
			out[i] = recs[j]
		}
		recs = out
	}
	head := &gen.Spec{Tag: "HEAD", Kids: []*gen.Spec{{Tag: "CHAR", Value: "UTF-8"}}}
	if m.headDate != "" {
		head.Kids = append(head.Kids, &gen.Spec{Tag: "DATE", Value: m.headDate})
	}
	return append(append([]*gen.Spec{head}, recs...), &gen.Spec{Tag: "TRLR"})
}

// birthday returns the day number of the n-th birthday.
func c20Birthday(b int64, n int) int64 {
	y, m, d := ref.Civil(b)
	if m == 2 && d == 29 && !ref.IsLeap(y+n) {
		return ref.DayNumber(y+n, 3, 1)
	}
	return ref.DayNumber(y+n, m, d)
}

// expected computes the multiset of canonical warning tuples and, for every
// candidate fact, the stratum it was drawn from.
func (m *c20Model) expected() map[string]int {
	exp := map[string]int{}
	for _, f := range m.families {
		for _, k := range f.kids {
			kb := m.people[k].birth
			for _, par := range []int{f.husb, f.wife} {
				if par < 0 || kb == c20None || m.people[par].birth == c20None {
					continue
				}
				key := fmt.Sprintf("ChildBornBeforeParent|parent=%s|child=%s", m.people[par].ptr, m.people[k].ptr)
				diff := kb - m.people[par].birth
				m.strata[key] = c20Bucket(diff, []int64{-1, 0, 1})
				if diff < 0 {
					exp[key]++
				}
			}
		}
		for i := 0; i < len(f.kids); i++ {
			for j := i + 1; j < len(f.kids); j++ {
				a, b := m.people[f.kids[i]], m.people[f.kids[j]]
				if a.birth == c20None || b.birth == c20None {
					continue
				}
				ps := []string{a.ptr, b.ptr}
				sort.Strings(ps)
				key := fmt.Sprintf("SiblingsBornTooClose|fam=%s|%s,%s", f.ptr, ps[0], ps[1])
				gap := a.birth - b.birth
				if gap < 0 {
					gap = -gap
				}
				m.strata[key] = c20Bucket(gap, []int64{0, 1, 4, 268, 280})
				if gap >= 2 && gap < 274 {
					exp[key]++
				}
			}
		}
		for _, md := range f.marr {
			for _, sp := range []int{f.husb, f.wife} {
				if sp < 0 || m.people[sp].birth == c20None {
					continue
				}
				b := m.people[sp].birth
				young := fmt.Sprintf("MarriedOutOfRange|fam=%s|spouse=%s|young", f.ptr, m.people[sp].ptr)
				old := fmt.Sprintf("MarriedOutOfRange|fam=%s|spouse=%s|old", f.ptr, m.people[sp].ptr)
				m.strata[young] = c20Bucket(md-c20Birthday(b, 16), []int64{-60, -5, 5, 60})
				m.strata[old] = c20Bucket(md-c20Birthday(b, 100), []int64{-60, -5, 5, 60})
				if md < c20Birthday(b, 16) {
					exp[young]++
				}
				if md > c20Birthday(b, 100) {
					exp[old]++
				}
			}
		}
		if f.husb >= 0 && f.wife >= 0 {
			h, w := m.people[f.husb], m.people[f.wife]
			key := "InverseSpouses|fam=" + f.ptr
			m.strata[key] = fmt.Sprintf("husband=%v,wife=%v", h.sexes, w.sexes)
			if len(h.sexes) > 0 && len(w.sexes) > 0 && h.sexes[0] == "F" && w.sexes[0] == "M" {
				exp[key]++
			}
		}
		for _, g := range f.garbage {
			key := fmt.Sprintf("UnparsableDate|%s|context=%s", g, f.ptr)
			m.strata[key] = "family-event"
			exp[key]++
		}
	}
	for _, p := range m.people {
		key := "IndividualTooOld|" + p.ptr
		end := p.death
		via := "death"
		if end == c20None {
			end = p.buri
			via = "burial-only"
		}
		if end != c20None && p.birth != c20None {
			m.strata[key] = via + ":" + c20Bucket(end-c20Birthday(p.birth, 100), []int64{-60, -5, 5, 60})
			if end > c20Birthday(p.birth, 100) {
				exp[key]++
			}
		} else {
			m.strata[key] = "no-death-or-no-birth"
		}
		type ed struct {
			tag   string
			day   int64
			group int
		}
		var evs []ed
		for _, x := range []ed{{"BIRT", p.birth, 0}, {"BAPM", p.bapm, 1}, {"BAPM", p.bapm2, 1}, {"DEAT", p.death, 2}, {"BURI", p.buri, 3}} {
			if x.day != c20None {
				evs = append(evs, x)
			}
		}
		for _, e := range evs {
			for _, fu := range evs {
				if fu.group <= e.group {
					continue
				}
				key := fmt.Sprintf("IncorrectEventOrder|%s|%s@%s|%s@%s", p.ptr, fu.tag, c20Date(fu.day), e.tag, c20Date(e.day))
				m.strata[key] = e.tag + "/" + fu.tag + ":" + c20Bucket(fu.day-e.day, []int64{-1, 0, 1})
				if fu.day < e.day {
					exp[key]++
				}
			}
		}
		key = "MultipleSexes|" + p.ptr
		m.strata[key] = fmt.Sprintf("%d-sex-lines", len(p.sexes))
		if len(p.sexes) > 1 {
			exp[key]++
		}
		for _, g := range p.garbage {
			k := fmt.Sprintf("UnparsableDate|%s|context=%s", g, p.ptr)
			m.strata[k] = "individual-event"
			exp[k]++
		}
	}
	if m.headDate != "" && !strings.Contains(m.headDate, " 20") {
		k := fmt.Sprintf("UnparsableDate|%s|context=None", m.headDate)
		m.strata[k] = "header"
		exp[k]++
	}
	return exp
}

func c20Bucket(v int64, cuts []int64) string {
	for i, c := range cuts {
		if v < c {
			if i == 0 {
				return fmt.Sprintf("<%d", c)
			}
			return fmt.Sprintf("[%d,%d)", cuts[i-1], c)
		}
		if v == c {
			return fmt.Sprintf("=%d", c)
		}
	}
	return fmt.Sprintf(">%d", cuts[len(cuts)-1])
}

// Values the date parser does not understand; a date phrase in parentheses is
// by the library's own definition "not recognizable to a date parser"
// (IsPhrase) and IsValid() is false for it, so it is in the list.
var c20Garbage = []string{"garbage", "sometime in spring", "32 Jan 1800", "31 Apr 1801", "29 Feb 1801", "Foo 1802", "0 Mar 1803", "1 Jan", "??", "12/03/1804", "(about harvest time)", "(unknown)", "()"}

func c20Draw(r *fw.Rand, tokBase int) *c20Model {
	m := &c20Model{strata: map[string]string{}}
	tok := tokBase
	newP := func(sexes ...string) int {
		tok += 2
		p := &c20Person{ptr: fmt.Sprintf("I%d", len(m.people)+1), given: gen.Cap(gen.Token(tok)), surname: gen.Cap(gen.Token(tok + 1)), sexes: sexes,
			birth: c20None, bapm: c20None, bapm2: c20None, death: c20None, buri: c20None}
		m.people = append(m.people, p)
		return len(m.people) - 1
	}
	delta := func() int64 { return int64(r.Range(5, 60)) }
	life := func(p *c20Person) {
		// baptism / death / burial relative to birth, each clearly ordered or clearly inverted
		if p.birth == c20None {
			return
		}
		if r.Chance(1, 2) {
			p.bapm = p.birth + []int64{-1, 0, 1, 30, 400}[r.Intn(5)]
			if r.Chance(1, 5) {
				p.bapm2 = p.birth + []int64{-1, 0, 2, 50}[r.Intn(4)]
			}
		}
		switch r.Intn(6) {
		case 0: // no death at all
		case 1: // clearly older than 100
			p.death = c20Birthday(p.birth, 100) + delta()
		case 2: // clearly not
			p.death = c20Birthday(p.birth, 100) - delta()
		case 3: // burial only
			if r.Bool() {
				p.buri = c20Birthday(p.birth, 100) + delta()
			} else {
				p.buri = c20Birthday(p.birth, 100) - delta()
			}
		case 4: // died before being born / baptised (inverted order), by a day
			p.death = p.birth - 1
		default:
			p.death = p.birth + int64(r.Range(1, 30000))
		}
		if p.death != c20None && r.Chance(1, 2) {
			p.buri = p.death + []int64{-1, 0, 1, 3, 10}[r.Intn(5)]
		}
		if r.Chance(1, 10) {
			p.garbage = append(p.garbage, c20Garbage[r.Intn(len(c20Garbage))])
		}
	}
	sexes := func(def string) []string {
		switch r.Intn(12) {
		case 0:
			return nil
		case 1:
			// the same SEX line twice or three times: several lines (a warning
			// of its own) but no doubt about the sex
			if r.Bool() {
				return []string{def, def}
			}
			return []string{def, def, def}
		default:
			return []string{def}
		}
	}
	nFam := r.Range(1, 4)
	for fi := 0; fi < nFam; fi++ {
		f := &c20Family{ptr: fmt.Sprintf("F%d", fi+1), husb: -1, wife: -1}
		base := ref.DayNumber(r.Range(1650, 1800), r.Range(1, 12), r.Range(1, 28))
		hs, ws := "M", "F"
		if r.Chance(1, 6) {
			hs, ws = "F", "M" // inverted spouses
		} else if r.Chance(1, 8) {
			hs, ws = "M", "M"
		} else if r.Chance(1, 10) {
			hs, ws = "U", "F"
		}
		if r.Chance(9, 10) {
			// a person can be the husband of several families
			if fi > 0 && r.Chance(1, 4) && m.families[fi-1].husb >= 0 {
				f.husb = m.families[fi-1].husb
				if b := m.people[f.husb].birth; b != c20None {
					base = b
				}
			} else {
				f.husb = newP(sexes(hs)...)
				if r.Chance(9, 10) {
					m.people[f.husb].birth = base
				}
			}
		}
		if r.Chance(9, 10) {
			f.wife = newP(sexes(ws)...)
			if r.Chance(9, 10) {
				m.people[f.wife].birth = base + int64(r.Range(-2000, 2000))
			}
		}
		// marriage: clear on both spouses
		for tries := 0; tries < 50 && r.Chance(4, 5) && len(f.marr) < 2; tries++ {
			var anchor int64 = c20None
			for _, sp := range []int{f.husb, f.wife} {
				if sp >= 0 && m.people[sp].birth != c20None {
					anchor = m.people[sp].birth
					if r.Bool() {
						break
					}
				}
			}
			if anchor == c20None {
				f.marr = append(f.marr, base+9000)
				break
			}
			var md int64
			switch r.Intn(6) {
			case 0:
				md = c20Birthday(anchor, 16) - delta()
			case 1:
				md = c20Birthday(anchor, 16) + delta()
			case 2:
				md = c20Birthday(anchor, 100) + delta()
			case 3:
				md = c20Birthday(anchor, 100) - delta()
			default:
				md = anchor + int64(r.Range(7000, 15000))
			}
			ok := true
			for _, sp := range []int{f.husb, f.wife} {
				if sp < 0 || m.people[sp].birth == c20None {
					continue
				}
				b := m.people[sp].birth
				for _, n := range []int{16, 100} {
					if d := md - c20Birthday(b, n); d > -5 && d < 5 {
						ok = false
					}
				}
				if md <= b+5 {
					ok = false // marriage before (or at) birth: not clear-cut
				}
			}
			if ok {
				f.marr = append(f.marr, md)
				if !r.Chance(1, 6) {
					break
				}
			}
		}
		// children
		nk := r.Intn(6)
		var births []int64
		for k := 0; k < nk; k++ {
			for tries := 0; tries < 50; tries++ {
				var b int64
				parents := []int64{}
				for _, sp := range []int{f.husb, f.wife} {
					if sp >= 0 && m.people[sp].birth != c20None {
						parents = append(parents, m.people[sp].birth)
					}
				}
				switch {
				case len(births) == 0 && len(parents) > 0 && r.Chance(1, 4):
					b = parents[r.Intn(len(parents))] + []int64{-1, 0, 1, -300}[r.Intn(4)]
				case len(births) == 0:
					b = base + int64(r.Range(8000, 14000))
				default:
					prev := births[len(births)-1]
					switch r.Intn(5) {
					case 0:
						b = prev + int64(r.Intn(2)) // twins: same day or next day
					case 1:
						b = prev + int64(r.Range(4, 268))
					case 2:
						b = prev + int64(r.Range(4, 40))
					default:
						b = prev + int64(r.Range(280, 1500))
					}
				}
				ok := true
				for _, o := range births {
					g := b - o
					if g < 0 {
						g = -g
					}
					if g == 2 || g == 3 || (g >= 269 && g <= 279) {
						ok = false
					}
				}
				if ok {
					births = append(births, b)
					ci := newP(sexes([]string{"M", "F"}[r.Intn(2)])...)
					if r.Chance(1, 12) {
						m.people[ci].sexes = [][]string{{"M", "F"}, {"F", "M", "U"}, {"M", "M"}}[r.Intn(3)]
					}
					if r.Chance(14, 15) {
						m.people[ci].birth = b
					}
					f.kids = append(f.kids, ci)
					break
				}
			}
		}
		if r.Chance(1, 8) {
			f.garbage = append(f.garbage, c20Garbage[r.Intn(len(c20Garbage))])
		}
		m.families = append(m.families, f)
	}
	// a child can be the child of two families (born into one, adopted into or
	// also recorded under another): every family it is listed in is checked on
	// its own. Only taken when the gaps to the children already there stay
	// clear of the bands around the sibling thresholds.
	if len(m.families) >= 2 && r.Chance(1, 3) {
		from, to := m.families[r.Intn(len(m.families)-1)], m.families[len(m.families)-1]
		if from != to && len(from.kids) > 0 {
			k := from.kids[r.Intn(len(from.kids))]
			ok := k != to.husb && k != to.wife
			for _, o := range to.kids {
				if o == k {
					ok = false
					continue
				}
				if m.people[k].birth != c20None && m.people[o].birth != c20None {
					g := m.people[k].birth - m.people[o].birth
					if g < 0 {
						g = -g
					}
					if g == 2 || g == 3 || (g >= 269 && g <= 279) {
						ok = false
					}
				}
			}
			if ok {
				to.kids = append(to.kids, k)
			}
		}
	}
	if r.Chance(1, 3) { // an unconnected person
		u := newP(sexes("F")...)
		m.people[u].birth = ref.DayNumber(r.Range(1700, 1900), r.Range(1, 12), r.Range(1, 28))
	}
	for _, p := range m.people {
		life(p)
	}
	switch r.Intn(4) {
	case 0:
		m.headDate = "1 Jan 2020"
	case 1:
		m.headDate = "not a date at all"
	}
	return m
}

func c20N(tier string) int {
	if tier == "thorough" {
		return 150000
	}
	return 8000
}

func init() {
	fw.Register(&fw.Prop{
		ID:       "C20",
		Title:    "Warnings are reported exactly when the recorded facts warrant them",
		NeedsCLI: true,
		Cases:    func(tier string, seed uint64) int { return c20N(tier) },
		Run:      c20Run,
		Rule: "generated family graphs with exact-day dates in the past; every threshold-relevant quantity is drawn from clearly-met / clearly-not-met strata hugging the threshold (sibling gaps {0,1 | 4..268 | 280+} days, marriage age 16y and 100y -/+ 5..60 days, age at death or burial 100y -/+ 5..60 days, child born 1 day before / same day / 1 day after a parent, later-group event 1 day before / same day / after), unparsable dates on individual, family and header level, 0..3 SEX lines, inverted spouse sexes, husbands with several families. " +
			"oracle: independent reference calculator on integer day numbers producing canonical tuples (kind, people, events); compared as multisets with Document.Warnings() (typed structs + Context + names mentioned in String()), with 3 random permutations of records/children, and with the stdout of the real 'gedcom warnings' binary (every 10th case). non-trivial = at least one warning expected and one near-threshold non-occurrence; distinct by text",
		Floors: func(a *fw.Agg, tier string) []string {
			var f []string
			min := int64(30)
			for _, k := range []string{"ChildBornBeforeParent", "SiblingsBornTooClose", "MarriedOutOfRange-young", "MarriedOutOfRange-old", "IndividualTooOld", "IncorrectEventOrder", "UnparsableDate", "MultipleSexes", "InverseSpouses"} {
				if a.Counters["expected:"+k] < min {
					f = append(f, fmt.Sprintf("warning kind %s expected only %d times", k, a.Counters["expected:"+k]))
				}
				if a.Counters["near-miss:"+k] < min {
					f = append(f, fmt.Sprintf("near-threshold non-occurrence of %s seen only %d times", k, a.Counters["near-miss:"+k]))
				}
			}
			if a.Counters["cli-runs"] < 20 {
				f = append(f, "fewer than 20 runs of the gedcom binary")
			}
			return f
		},
		Assumptions: []string{
			"clear-cut data only: +/- 4 days around the year-based thresholds, sibling gaps of 2-3 and 269-279 days, marriages before a spouse's birth and spouses whose SEX lines contradict each other are never generated (a spouse may carry the same SEX line several times); a date phrase in parentheses counts as unparsable (IsValid() is false for it by definition)",
			"every child has one BIRT (a child may be listed in two families); age is counted from BIRT (no baptism-only people among spouses)",
		},
	})
}

// c20Canon turns library warnings into canonical tuples.
func c20Canon(ws gedcom.Warnings) (map[string]int, map[string]string) {
	out := map[string]int{}
	text := map[string]string{}
	ptr := func(i *gedcom.IndividualNode) string {
		if i == nil {
			return "<nil>"
		}
		return i.Pointer()
	}
	dayOf := func(dr gedcom.DateRange) string { return dr.StartDate().String() }
	for _, w := range ws {
		var key string
		switch x := w.(type) {
		case *gedcom.ChildBornBeforeParentWarning:
			key = fmt.Sprintf("ChildBornBeforeParent|parent=%s|child=%s", ptr(x.Parent), ptr(x.Child.Individual()))
		case *gedcom.SiblingsBornTooCloseWarning:
			ps := []string{ptr(x.Sibling1.Individual()), ptr(x.Sibling2.Individual())}
			sort.Strings(ps)
			fam := "<nil>"
			if x.Sibling1.Family() != nil {
				fam = x.Sibling1.Family().Pointer()
			}
			key = fmt.Sprintf("SiblingsBornTooClose|fam=%s|%s,%s", fam, ps[0], ps[1])
		case *gedcom.MarriedOutOfRangeWarning:
			key = fmt.Sprintf("MarriedOutOfRange|fam=%s|spouse=%s|%s", x.Family.Pointer(), ptr(x.Spouse), x.Boundary)
		case *gedcom.IndividualTooOldWarning:
			key = "IndividualTooOld|" + ptr(x.Individual)
		case *gedcom.IncorrectEventOrderWarning:
			key = fmt.Sprintf("IncorrectEventOrder|%s|%s@%s|%s@%s", ptr(x.Context().Individual), x.FirstEvent.Tag().Tag(), dayOf(x.FirstDateRange), x.SecondEvent.Tag().Tag(), dayOf(x.SecondDateRange))
		case *gedcom.UnparsableDateWarning:
			ctx := "None"
			if c := x.Context(); c.Individual != nil {
				ctx = c.Individual.Pointer()
			} else if c.Family != nil {
				ctx = c.Family.Pointer()
			}
			key = fmt.Sprintf("UnparsableDate|%s|context=%s", x.Date.Value(), ctx)
		case *gedcom.MultipleSexesWarning:
			key = "MultipleSexes|" + ptr(x.Individual)
		case *gedcom.InverseSpousesWarning:
			key = "InverseSpouses|fam=" + x.Family.Pointer()
		default:
			key = "Other|" + w.Name() + "|" + w.String()
		}
		out[key]++
		text[key] = w.String()
	}
	return out, text
}

func c20Kind(key string) string {
	k := key
	if i := strings.IndexByte(k, '|'); i >= 0 {
		k = k[:i]
	}
	if k == "MarriedOutOfRange" {
		if strings.HasSuffix(key, "|young") {
			return k + "-young"
		}
		return k + "-old"
	}
	return k
}

func c20Run(c *fw.Ctx, i int) {
	r := c.R
	m := c20Draw(r, i*64)
	exp := m.expected()
	text := gen.Text(m.specs(r, false))
	payload := map[string]interface{}{"gedcom": text}
	doc, err := gedcom.NewDocumentFromString(text)
	if err != nil {
		c.HarnessError("C20 model does not decode: " + err.Error())
		return
	}
	got, gotText := c20Canon(doc.Warnings())
	// coverage counters
	nearMiss := false
	for key, stratum := range m.strata {
		kind := c20Kind(key)
		if exp[key] > 0 {
			c.Count("expected:"+kind, 1)
		} else if !strings.Contains(stratum, "no-death") && stratum != "1-sex-lines" && stratum != "0-sex-lines" || kind == "MultipleSexes" || kind == "InverseSpouses" {
			near := true
			switch kind {
			case "SiblingsBornTooClose":
				near = strings.Contains(stratum, "=0") || strings.Contains(stratum, "=1") || strings.Contains(stratum, ">280") || strings.Contains(stratum, "=280") || strings.Contains(stratum, "[0,1)")
			case "MarriedOutOfRange-young", "MarriedOutOfRange-old", "IndividualTooOld":
				near = strings.Contains(stratum, "[5,60)") || strings.Contains(stratum, "[-60,-5)") || strings.Contains(stratum, "=5") || strings.Contains(stratum, "=-5") || strings.Contains(stratum, "=60") || strings.Contains(stratum, "=-60")
			case "ChildBornBeforeParent", "IncorrectEventOrder":
				near = strings.Contains(stratum, "=0") || strings.Contains(stratum, "=1") || strings.Contains(stratum, ">1") || strings.Contains(stratum, "[0,1)")
			case "MultipleSexes":
				near = stratum == "1-sex-lines" || stratum == "0-sex-lines"
			}
			if near {
				c.Count("near-miss:"+kind, 1)
				nearMiss = true
			}
		}
	}
	if len(m.people) > 0 {
		c.Count("near-miss:UnparsableDate", 1) // every document carries many parsable dates
	}
	if len(exp) > 0 && nearMiss {
		c.NontrivialStr(text)
	}
	c.Count("documents", 1)
	c.Count("warnings-expected", int64(len(exp)))
	c20Compare(c, m, exp, got, gotText, "as-written", payload)

	// names: each warning text mentions exactly the people of its tuple
	for key, s := range gotText {
		for _, p := range m.people {
			involved := false
			for _, tokn := range strings.FieldsFunc(key, func(r rune) bool { return r == '|' || r == ',' || r == '=' }) {
				if tokn == p.ptr {
					involved = true
				}
			}
			if strings.HasPrefix(key, "InverseSpouses") {
				for _, f := range m.families {
					if "InverseSpouses|fam="+f.ptr == key && ((f.husb >= 0 && m.people[f.husb] == p) || (f.wife >= 0 && m.people[f.wife] == p)) {
						involved = true
					}
				}
			}
			if strings.HasPrefix(key, "UnparsableDate") {
				continue
			}
			mentions := strings.Contains(s, p.given) || strings.Contains(s, p.surname)
			if exp[key] > 0 && involved != mentions {
				c.Violation("wrong-people:"+c20Kind(key), fmt.Sprintf("warning %q (tuple %s): person %s (%s %s) involved=%v but mentioned=%v", s, key, p.ptr, p.given, p.surname, involved, mentions), payload)
			}
		}
	}

	// order independence
	for k := 0; k < 3; k++ {
		pt := gen.Text(m.specs(r, true))
		pd, err := gedcom.NewDocumentFromString(pt)
		if err != nil {
			c.HarnessError("C20 permuted model does not decode: " + err.Error())
			return
		}
		c.Count("permutations", 1)
		pg, _ := c20Canon(pd.Warnings())
		for key := range pg {
			if pg[key] != got[key] {
				c.Violation("order-dependent:"+c20Kind(key)+":"+m.strata[key], fmt.Sprintf("after permuting records/children the warning %s is reported %d times instead of %d\npermuted file:\n%s", key, pg[key], got[key], pt), map[string]interface{}{"gedcom": text, "permuted": pt})
			}
		}
		for key := range got {
			if pg[key] != got[key] && pg[key] == 0 {
				c.Violation("order-dependent:"+c20Kind(key)+":"+m.strata[key], fmt.Sprintf("after permuting records/children the warning %s disappears\npermuted file:\n%s", key, pt), map[string]interface{}{"gedcom": text, "permuted": pt})
			}
		}
	}

	// the real binary
	if bin := os.Getenv("VERIF_GEDCOM_BIN"); bin != "" && i%10 == 0 {
		dir := os.Getenv("VERIF_SCRATCH")
		if dir == "" {
			dir = os.TempDir()
		}
		path := filepath.Join(dir, fmt.Sprintf("c20-%d-%d.ged", os.Getpid(), i))
		os.WriteFile(path, []byte(text), 0o644)
		defer os.Remove(path)
		outS, err, okRun := runCLI(c, "cli-warnings", payload, nil, 60, bin, "warnings", path)
		if !okRun {
			return
		}
		out := []byte(outS)
		c.Count("cli-runs", 1)
		if err != nil {
			c.Violation("cli-failed:warnings", fmt.Sprintf("gedcom warnings exited with %v:\n%s", err, clip(string(out), 800)), payload)
		} else {
			fresh, _ := gedcom.NewDocumentFromString(text)
			var want []string
			for _, w := range fresh.Warnings() {
				want = append(want, w.String())
			}
			gotLines := strings.Split(strings.TrimRight(string(out), "\n"), "\n")
			if len(want) == 0 && strings.TrimSpace(string(out)) == "" {
				gotLines = nil
			}
			sort.Strings(want)
			sort.Strings(gotLines)
			if strings.Join(want, "\n") != strings.Join(gotLines, "\n") {
				c.Violation("cli-differs:warnings", fmt.Sprintf("stdout of 'gedcom warnings' differs from Document.Warnings():\n%s\n--- library:\n%s", strings.Join(gotLines, "\n"), strings.Join(want, "\n")), payload)
			}
		}
	}
	if c.WantSample("document") && len(exp) > 0 {
		var ks []string
		for k := range exp {
			ks = append(ks, k)
		}
		sort.Strings(ks)
		c.Sample("document", map[string]interface{}{"gedcom": clip(text, 500), "expected_warnings": ks})
	}
}

func c20Compare(c *fw.Ctx, m *c20Model, exp, got map[string]int, gotText map[string]string, how string, payload interface{}) {
	for key, n := range exp {
		g := got[key]
		switch {
		case g == 0:
			c.Violation("missing:"+c20Kind(key)+":"+m.strata[key], fmt.Sprintf("expected warning %s (stratum %s) is not reported", key, m.strata[key]), payload)
		case g > n:
			c.Violation("duplicate:"+c20Kind(key)+":"+m.strata[key], fmt.Sprintf("warning %s reported %d times, expected %d: %q", key, g, n, gotText[key]), payload)
		case g < n:
			c.Violation("missing:"+c20Kind(key)+":"+m.strata[key], fmt.Sprintf("warning %s reported %d times, expected %d", key, g, n), payload)
		}
	}
	for key, g := range got {
		if exp[key] == 0 {
			st, ok := m.strata[key]
			if !ok {
				st = "no-such-candidate"
			}
			c.Violation("unexpected:"+c20Kind(key)+":"+st, fmt.Sprintf("warning %s (%q) reported %d times but the facts do not warrant it (stratum %s)", key, gotText[key], g, st), payload)
		}
	}
}
