package props

import (
	"bytes"
	"fmt"
	"path/filepath"
	"regexp"
	"runtime"
	"sort"
	"strings"
	"sync"
	"time"

	"github.com/elliotchance/gedcom/v39"
	"github.com/elliotchance/gedcom/v39/html"
	"github.com/elliotchance/gedcom/v39/html/core"
	xhtml "golang.org/x/net/html"

	"verif/fw"
)

// Shared pieces of the publishing checks (C17, C18, C19).

type recFile struct {
	Name string
	Body []byte
	Gid  int64
	Err  error
}

// recorder is a core.FileWriter that renders every file into memory. Storage
// is sharded by goroutine so that the writer adds (almost) no happens-before
// edges between the publisher's workers (a single lock would hide races from
// the race detector, as log.Printf does in the CLI).
type recorder struct {
	shards [64]struct {
		mu    sync.Mutex
		files []recFile
	}
	// failAt > 0: the k-th WriteFile call (1-based, counted per recorder) fails;
	// with persistent set every call from the k-th on fails (a full disk, a
	// directory that does not exist).
	failAt     int64
	persistent bool
	count      int64
	cmu        sync.Mutex
}

func (w *recorder) WriteFile(f *core.File) error {
	var buf bytes.Buffer
	_, err := f.Component.WriteHTMLTo(&buf)
	gid := c11Gid()
	if w.failAt > 0 {
		w.cmu.Lock()
		w.count++
		k := w.count
		w.cmu.Unlock()
		if k == w.failAt || (w.persistent && k > w.failAt) {
			err = fmt.Errorf("injected write failure at file %d (%s)", k, f.Name)
		}
	}
	sh := &w.shards[gid%64]
	sh.mu.Lock()
	sh.files = append(sh.files, recFile{f.Name, buf.Bytes(), gid, err})
	sh.mu.Unlock()
	return err
}

func (w *recorder) all() []recFile {
	var out []recFile
	for i := range w.shards {
		w.shards[i].mu.Lock()
		out = append(out, w.shards[i].files...)
		w.shards[i].mu.Unlock()
	}
	sort.SliceStable(out, func(a, b int) bool { return out[a].Name < out[b].Name })
	return out
}

var goroutineHeader = regexp.MustCompile(`^goroutine (\d+) (?:gp=\S+ m=\S+ (?:mp=\S+ )?)?\[([^\],]+)`)

// repoGoroutinesBlocked looks at a dump of all goroutines: it reports (with
// the dump) when at least one goroutine is inside marker (e.g. the publisher)
// and every goroutine that has a frame of the library on its stack is parked
// on a channel, a select, a lock or a wait group - nothing of the library is
// running or runnable, so nothing can ever wake them up from inside.
func repoGoroutinesBlocked(marker string) (bool, string) {
	buf := make([]byte, 1<<22)
	dump := string(buf[:runtime.Stack(buf, true)])
	inMarker, blockedAll := 0, true
	var kept []string
	for _, blk := range strings.Split(dump, "\n\n") {
		m := goroutineHeader.FindStringSubmatch(strings.TrimSpace(strings.SplitN(strings.TrimSpace(blk), "\n", 2)[0]))
		if m == nil || !strings.Contains(blk, "github.com/elliotchance/gedcom/v39") {
			continue
		}
		if strings.Contains(blk, marker) {
			inMarker++
		}
		switch st := m[2]; {
		case strings.HasPrefix(st, "chan send"), strings.HasPrefix(st, "chan receive"), strings.HasPrefix(st, "select"), strings.HasPrefix(st, "semacquire"), strings.HasPrefix(st, "sync."):
			kept = append(kept, blk)
		default:
			blockedAll = false
		}
	}
	if inMarker == 0 || !blockedAll {
		return false, ""
	}
	return true, strings.Join(kept, "\n\n")
}

type site struct {
	Files map[string][]byte
	Dups  []string // names written more than once
	Err   error
	Calls int
}

func allGroups(vis html.LivingVisibility) *html.PublishShowOptions {
	return &html.PublishShowOptions{ShowIndividuals: true, ShowPlaces: true, ShowFamilies: true, ShowSurnames: true, ShowSources: true, ShowStatistics: true, LivingVisibility: vis}
}

func groupsFromMask(mask int, vis html.LivingVisibility) *html.PublishShowOptions {
	return &html.PublishShowOptions{ShowIndividuals: mask&1 != 0, ShowPlaces: mask&2 != 0, ShowFamilies: mask&4 != 0, ShowSurnames: mask&8 != 0, ShowSources: mask&16 != 0, ShowStatistics: mask&32 != 0, LivingVisibility: vis}
}

// publish decodes text freshly and publishes it into memory.
func publish(text string, opts *html.PublishShowOptions, jobs int, failAt int64) (*site, error) {
	doc, err := gedcom.NewDocumentFromString(text)
	if err != nil {
		return nil, err
	}
	return publishDoc(doc, opts, jobs, failAt), nil
}

func publishDoc(doc *gedcom.Document, opts *html.PublishShowOptions, jobs int, failAt int64) *site {
	w := &recorder{failAt: failAt}
	s := &site{Files: map[string][]byte{}}
	s.Err = html.NewPublisher(doc, opts).Publish(w, jobs)
	for _, f := range w.all() {
		s.Calls++
		if _, dup := s.Files[f.Name]; dup {
			s.Dups = append(s.Dups, f.Name)
		}
		s.Files[f.Name] = f.Body
	}
	return s
}

func (s *site) names() []string {
	var o []string
	for n := range s.Files {
		o = append(o, n)
	}
	sort.Strings(o)
	return o
}

// links extracts href targets and location.href='...' targets from a page.
func pageLinks(body []byte) []string {
	var out []string
	z := xhtml.NewTokenizer(bytes.NewReader(body))
	for {
		tt := z.Next()
		if tt == xhtml.ErrorToken {
			break
		}
		if tt != xhtml.StartTagToken && tt != xhtml.SelfClosingTagToken {
			continue
		}
		t := z.Token()
		for _, a := range t.Attr {
			switch strings.ToLower(a.Key) {
			case "href":
				out = append(out, a.Val)
			case "onclick":
				v := a.Val
				for {
					i := strings.Index(v, "location.href=")
					if i < 0 {
						break
					}
					v = v[i+len("location.href="):]
					if len(v) > 0 && (v[0] == '\'' || v[0] == '"') {
						q := v[0]
						if j := strings.IndexByte(v[1:], q); j >= 0 {
							out = append(out, v[1:1+j])
							v = v[1+j:]
						}
					}
				}
			}
		}
	}
	return out
}

// runCLI runs the built gedcom binary under observation (fw.RunProcess: CPU
// limit, zero-progress detection with a goroutine dump). A busy loop or a
// dead-lock is reported as a violation of the calling property right here and
// ok is false; a watchdog firing is inconclusive (ok false as well).
func runCLI(c *fw.Ctx, what string, payload interface{}, env []string, cpuSeconds int, bin string, args ...string) (out string, err error, ok bool) {
	res := fw.RunProcessOpt(bin, args, env, cpuSeconds, 600*time.Second, filepath.Base(bin) == "strace")
	switch res.Hang {
	case "deadlock":
		c.Violation(what+":deadlock@"+fw.InnermostRepoFrame(res.Dump), fmt.Sprintf("gedcom %s stopped making progress (no CPU time used at all) and the goroutine dump taken with SIGQUIT shows that no goroutine of the program can run\n%s", strings.Join(args, " "), clip(res.Dump, 2500)), payload)
		return res.Out, res.Err, false
	case "busy-loop":
		if !strings.Contains(res.Out, "panic: ") && !strings.Contains(res.Out, "fatal error: ") {
			c.Violation(what+":busy-loop-cpu-limit", fmt.Sprintf("gedcom %s was killed after using more than %d s of CPU time\n%s", strings.Join(args, " "), cpuSeconds, clip(res.Out, 600)), payload)
			return res.Out, res.Err, false
		}
	case "watchdog", "idle":
		c.Inconclusive(what + "-" + res.Hang)
		return res.Out, res.Err, false
	}
	return res.Out, res.Err, true
}
