package props

import (
	"fmt"
	"strings"

	"github.com/elliotchance/gedcom/v39"

	"verif/fw"
	"verif/gen"
)

// C08 — a node diff accounts for every node and leaves its inputs alone.

func c08N(tier string) int {
	if tier == "thorough" {
		return 1000000
	}
	return 60000
}

func init() {
	fw.Register(&fw.Prop{
		ID:    "C08",
		Title: "A node diff accounts for every node and leaves its inputs alone",
		Cases: func(tier string, seed uint64) int { return c08N(tier) },
		Run:   c08Run,
		Rule: "pairs of trees with the same root over every node kind: (a) independent random trees, (b) a tree and its re-ordered deep copy (all-two-sided demanded when deep equality itself is symmetric and transitive on the nodes present), (c) a tree and a copy with 1..5 uniquely tagged leaves inserted on either side under plain parents (exact one-sided set known), (d) an individual of a generated family graph and an edited clone. " +
			"monitors: structural checker over the NodeDiff (no empty entry, provenance by identity, coverage of every input node by Equals in either direction with backtracking, two-sided entries hold equal nodes), purity snapshots of both inputs around CompareNodes/String/IsDeepEqual/Sort/Tag applied twice in random order, structure re-checked after Sort. non-trivial = diff has a one-sided and a two-sided entry below the root; distinct by text of the pair",
		Floors: func(a *fw.Agg, tier string) []string {
			var f []string
			for _, k := range []string{"diffs", "entries-checked", "nodes-covered", "one-sided-by-construction", "all-two-sided-demanded", "purity-snapshots", "sorts"} {
				if a.Counters[k] < 100 {
					f = append(f, fmt.Sprintf("%s=%d < 100", k, a.Counters[k]))
				}
			}
			return f
		},
		Assumptions: []string{
			"equal siblings may legitimately fold into one entry; coverage is 'some entry under an entry representing the parent holds a node Equals to it (either direction)'",
			"LeftNode()/RightNode() are documented as flattening (they build a merged node) and are not part of the operations that must be pure",
		},
	})
}

func c08EqEither(a, b gedcom.Node) bool {
	if gedcom.IsNil(a) || gedcom.IsNil(b) {
		return false
	}
	return a == b || a.Equals(b) || b.Equals(a)
}

func c08PlainKind(n gedcom.Node) bool {
	switch n.(type) {
	case *gedcom.BirthNode, *gedcom.DeathNode, *gedcom.BurialNode, *gedcom.BaptismNode, *gedcom.ResidenceNode, *gedcom.EventNode, *gedcom.DateNode, *gedcom.UniqueIDNode:
		return false
	}
	return true
}

type c08Checker struct {
	c        *fw.Ctx
	leftPar  map[gedcom.Node]gedcom.Node
	rightPar map[gedcom.Node]gedcom.Node
	leftDep  map[gedcom.Node]int
	rightDep map[gedcom.Node]int
	op       string
	payload  interface{}
	failed   bool
}

func c08Index(n gedcom.Node, par map[gedcom.Node]gedcom.Node, dep map[gedcom.Node]int, d int) {
	dep[n] = d
	for _, k := range n.Nodes() {
		par[k] = n
		c08Index(k, par, dep, d+1)
	}
}

func (k *c08Checker) bad(rule, format string, args ...interface{}) {
	if k.failed {
		return
	}
	k.failed = true
	k.c.Violation(rule+":"+k.op, fmt.Sprintf(format, args...), k.payload)
}

// entries: provenance and shape
func (k *c08Checker) entries(e *gedcom.NodeDiff, parent *gedcom.NodeDiff, depth int) {
	k.c.Count("entries-checked", 1)
	ln, rn := gedcom.IsNil(e.Left), gedcom.IsNil(e.Right)
	if ln && rn {
		k.bad("empty-entry", "a diff entry at depth %d has neither a left nor a right node", depth)
		return
	}
	check := func(side string, n gedcom.Node, dep map[gedcom.Node]int, par map[gedcom.Node]gedcom.Node, pl, pr gedcom.Node) {
		d, ok := dep[n]
		if !ok {
			k.bad("provenance", "entry at depth %d holds a %s node that is not a node object of the %s input: %s", depth, side, side, gen.Describe(n))
			return
		}
		if d != depth {
			k.bad("provenance-depth", "entry at depth %d holds %s node %s which sits at depth %d of the %s input", depth, side, gen.Describe(n), d, side)
			return
		}
		if parent != nil {
			p := par[n]
			if !(c08EqEither(p, pl) || c08EqEither(p, pr)) {
				k.bad("provenance-parent", "entry %s (%s) is listed under an entry (%s / %s) that does not represent its parent %s", gen.Describe(n), side, gen.Describe(pl), gen.Describe(pr), gen.Describe(p))
			}
		}
	}
	var pl, pr gedcom.Node
	if parent != nil {
		pl, pr = parent.Left, parent.Right
	}
	if !ln {
		check("left", e.Left, k.leftDep, k.leftPar, pl, pr)
	}
	if !rn {
		check("right", e.Right, k.rightDep, k.rightPar, pl, pr)
	}
	if !ln && !rn && parent != nil && !c08EqEither(e.Left, e.Right) {
		k.bad("two-sided-unequal", "two-sided entry holds nodes that are not equal: %s vs %s", gen.Describe(e.Left), gen.Describe(e.Right))
	}
	// Without asking the library: nodes of a kind that has no equality rule of
	// its own (everything but births, deaths, burials, baptisms, residences,
	// events, dates and unique identifiers) are equal when their lines are:
	// tag, value and pointer.
	if !ln && !rn && parent != nil && c08PlainKind(e.Left) && c08PlainKind(e.Right) {
		k.c.Count("two-sided-entries-checked-by-line", 1)
		if e.Left.Tag().Tag() != e.Right.Tag().Tag() || e.Left.Value() != e.Right.Value() || e.Left.Pointer() != e.Right.Pointer() {
			k.bad("two-sided-unequal-by-line", "two-sided entry holds nodes with different lines: %s vs %s", gen.Describe(e.Left), gen.Describe(e.Right))
		}
	}
	for _, ch := range e.Children {
		k.entries(ch, e, depth+1)
	}
}

// cover: every child of x is represented under e (with backtracking over candidate entries)
func (k *c08Checker) cover(e *gedcom.NodeDiff, x gedcom.Node, budget *int) (bool, gedcom.Node) {
	for _, ch := range x.Nodes() {
		*budget--
		if *budget < 0 {
			return true, nil // give up silently on pathological fan-out (counted by caller)
		}
		found := false
		var firstMiss gedcom.Node
		for _, ce := range e.Children {
			if c08EqEither(ce.Left, ch) || c08EqEither(ce.Right, ch) {
				ok, miss := k.cover(ce, ch, budget)
				if ok {
					found = true
					break
				}
				if firstMiss == nil {
					firstMiss = miss
				}
			}
		}
		if !found {
			if firstMiss != nil {
				return false, firstMiss
			}
			return false, ch
		}
	}
	return true, nil
}

func c08CountNodes(n gedcom.Node) int {
	t := 1
	for _, k := range n.Nodes() {
		t += c08CountNodes(k)
	}
	return t
}

func (k *c08Checker) all(d *gedcom.NodeDiff, L, R gedcom.Node) {
	if d.Left != L || d.Right != R {
		k.bad("root-entry", "root entry does not hold the two inputs")
		return
	}
	k.entries(d, nil, 0)
	for _, side := range []struct {
		name string
		n    gedcom.Node
	}{{"left", L}, {"right", R}} {
		budget := 200000
		ok, miss := k.cover(d, side.n, &budget)
		if budget < 0 {
			k.c.Inconclusive("coverage-search-budget")
		}
		k.c.Count("nodes-covered", int64(c08CountNodes(side.n)))
		if !ok {
			k.bad("uncovered-node", "%s input node %s is not represented by any entry (under entries representing its ancestors)", side.name, gen.Describe(miss))
		}
	}
}

func c08Shape(d *gedcom.NodeDiff) (one, two int) {
	for _, ch := range d.Children {
		if gedcom.IsNil(ch.Left) || gedcom.IsNil(ch.Right) {
			one++
		} else {
			two++
		}
		o, t := c08Shape(ch)
		one += o
		two += t
	}
	return
}

func c08AllEntries(d *gedcom.NodeDiff) []*gedcom.NodeDiff {
	out := []*gedcom.NodeDiff{d}
	for _, ch := range d.Children {
		out = append(out, c08AllEntries(ch)...)
	}
	return out
}

// c08WideFacts: see the "wide-facts" workload.
func c08WideFacts(r *fw.Rand) *gen.Spec {
	var kids []*gen.Spec
	for k, n := 0, r.Range(10, 30); k < n; k++ {
		tag := c07Plain[r.Intn(len(c07Plain))]
		if tag == "CONC" || tag == "CONT" {
			tag = "NOTE"
		}
		kids = append(kids, &gen.Spec{Tag: tag, Value: fmt.Sprintf("v%d", k)})
	}
	year := 1700 + r.Intn(100)
	types := []string{"Graduation", "Ceremony", "Travel", "Immigration", "Land Lease"}
	for k, n := 0, r.Range(2, 6); k < n; k++ {
		f := &gen.Spec{Tag: "RESI"}
		if r.Bool() {
			f.Tag, f.Value = "EVEN", []string{"", "Moved", "Census"}[r.Intn(3)]
		}
		if r.Chance(3, 4) {
			year += r.Range(2, 9)
			v := fmt.Sprint(year)
			if r.Bool() {
				v = fmt.Sprintf("%d %s %d", r.Range(1, 28), []string{"Jan", "May", "Dec"}[r.Intn(3)], year)
			}
			f.Kids = append(f.Kids, &gen.Spec{Tag: "DATE", Value: v})
		}
		f.Kids = append(f.Kids, &gen.Spec{Tag: "PLAC", Value: fmt.Sprintf("Town %d", k)})
		for t, nt := 0, r.Intn(4); t < nt; t++ {
			f.Kids = append(f.Kids, &gen.Spec{Tag: "TYPE", Value: types[(k+t*2)%len(types)]})
		}
		if r.Chance(1, 3) {
			f.Kids = append(f.Kids, &gen.Spec{Tag: "NOTE", Value: fmt.Sprintf("note %d", k)})
		}
		// mostly behind the plain children, now and then anywhere
		pos := len(kids)
		if r.Chance(1, 3) {
			pos = r.Intn(len(kids) + 1)
		}
		kids = append(kids[:pos], append([]*gen.Spec{f}, kids[pos:]...)...)
	}
	if r.Bool() {
		return &gen.Spec{Tag: "INDI", Pointer: "I1", Kids: append([]*gen.Spec{{Tag: "NAME", Value: "A /B/"}}, kids...)}
	}
	return &gen.Spec{Tag: "_ROOT", Value: "r", Kids: kids}
}

func c08Run(c *fw.Ctx, i int) {
	r := c.R
	kind := []string{"independent", "permuted-copy", "unique-leaves", "fg-individual", "wide-facts"}[i%5]
	if kind == "unique-leaves" && (i/5)%3 == 1 {
		kind = "relabelled-lines"
	}
	var L, R gedcom.Node
	var uniqueLeft, uniqueRight []string
	var relabelled []string
	wideEdit := 0
	switch kind {
	case "independent":
		a := c07Tree(r, r.Range(3, 20))
		b := c07Tree(r, r.Range(3, 20))
		// mostly the same kind of root; any two nodes can be compared though
		for b.Tag != a.Tag && i%16 != 0 {
			b = c07Tree(r, r.Range(3, 20))
		}
		if r.Bool() { // share some subtrees so that two-sided entries exist
			for _, k := range a.Kids {
				if c07Contextual[k.Tag] && b.Tag != a.Tag {
					continue // role lines only exist inside a family
				}
				if r.Bool() {
					b.Kids = append(b.Kids, cloneSpec(k))
				}
			}
		}
		L, _ = c07Node(a)
		R, _ = c07Node(b)
	case "permuted-copy":
		a := c07Tree(r, r.Range(3, 24))
		L, _ = c07Node(a)
		if L != nil && (i/5)%4 == 2 {
			// the copy spells every unique identifier differently: without its
			// checksum, with another one, in lower case, in braces. "The
			// checksum (if any) is ignored": still a tree and its re-ordered copy.
			b := cloneSpec(a)
			var walk func(x *gen.Spec)
			walk = func(x *gen.Spec) {
				if x.Tag == "_UID" {
					for _, u := range []string{"92FF8B766F327F48A256C3AE6DAE50D3", "EE13561DDB204985BFFDEEBF82A5226C"} {
						if strings.HasPrefix(strings.ToUpper(strings.NewReplacer("{", "", "}", "", "-", "").Replace(x.Value)), u) {
							x.Value = []string{u, u + "0000", u + "A1b2", strings.ToLower(u), "{" + u[:8] + "-" + u[8:12] + "-" + u[12:16] + "-" + u[16:20] + "-" + u[20:] + "}"}[r.Intn(5)]
							c.Count("unique-identifiers-respelled", 1)
						}
					}
				}
				for _, k := range x.Kids {
					walk(k)
				}
			}
			walk(b)
			R, _ = c07Node(b)
			if R != nil {
				c07Permute(R, r)
			}
		} else if L != nil {
			R = c07Copy(L)
			c07Permute(R, r)
		}
	case "unique-leaves":
		a := c07Tree(r, r.Range(3, 20))
		b := cloneSpec(a)
		n := 0
		ins := func(t *gen.Spec, side *[]string) {
			var plain []*gen.Spec
			var walk func(x *gen.Spec)
			walk = func(x *gen.Spec) {
				if c07Class(x) == "plain" || x.Tag == "INDI" || x.Tag == "FAM" {
					plain = append(plain, x)
				}
				for _, k := range x.Kids {
					walk(k)
				}
			}
			walk(t)
			if len(plain) == 0 {
				return
			}
			n++
			tag := fmt.Sprintf("_V%03d", n)
			p := plain[r.Intn(len(plain))]
			pos := r.Intn(len(p.Kids) + 1)
			leaf := &gen.Spec{Tag: tag, Value: "u"}
			p.Kids = append(p.Kids[:pos], append([]*gen.Spec{leaf}, p.Kids[pos:]...)...)
			*side = append(*side, tag)
		}
		for k := r.Range(1, 5); k > 0; k-- {
			if r.Bool() {
				ins(a, &uniqueLeft)
			} else {
				ins(b, &uniqueRight)
			}
		}
		L, _ = c07Node(a)
		R, _ = c07Node(b)
	case "relabelled-lines":
		// a tree and a copy in which a few lines got another cross-reference
		// id (and nothing else): the relabelled line exists in the right input
		// only, whatever its kind
		a := c07Tree(r, r.Range(4, 20))
		b := cloneSpec(a)
		var cand []*gen.Spec
		var walk func(x *gen.Spec, top bool)
		walk = func(x *gen.Spec, top bool) {
			if !top && !c07Contextual[x.Tag] && x.Tag != "INDI" && x.Tag != "FAM" {
				cand = append(cand, x)
			}
			for _, k := range x.Kids {
				walk(k, false)
			}
		}
		walk(b, true)
		for k := r.Range(1, 3); k > 0 && len(cand) > 0; k-- {
			x := cand[r.Intn(len(cand))]
			if strings.HasPrefix(x.Pointer, "ZQ") {
				continue
			}
			x.Pointer = fmt.Sprintf("ZQ%d%s", len(relabelled)+1, x.Pointer)
			relabelled = append(relabelled, x.Pointer)
		}
		L, _ = c07Node(a)
		R, _ = c07Node(b)
		// only lines of a kind without an equality rule of its own count
		relabelled = nil
		if R != nil {
			for _, x := range c07All(R) {
				if strings.HasPrefix(x.Pointer(), "ZQ") && c08PlainKind(x) {
					relabelled = append(relabelled, x.Pointer())
				}
			}
		}
	case "fg-individual":
		g := gen.NewFG(r, gen.FGOpts{People: r.Range(2, 8), MultiNames: true, WithUIDs: true})
		p := g.People[r.Intn(len(g.People))]
		ls := g.PersonSpec(p)
		rs := cloneSpec(ls)
		// edit the clone: drop, change, add facts
		for k := 0; k < 3 && len(rs.Kids) > 0; k++ {
			q := r.Intn(len(rs.Kids))
			switch r.Intn(3) {
			case 0:
				rs.Kids = append(rs.Kids[:q], rs.Kids[q+1:]...)
			case 1:
				rs.Kids[q].Value += " x"
			case 2:
				rs.Kids = append(rs.Kids, &gen.Spec{Tag: "OCCU", Value: "farmer", Kids: []*gen.Spec{{Tag: "DATE", Value: "1900"}}})
			}
		}
		L, _ = c07Node(ls)
		R, _ = c07Node(rs)
	case "wide-facts":
		// a parent with many pairwise different children (where code switches
		// to indexes), among them residences and events that share their line
		// and differ in what makes them equal: their dates, or, without dates,
		// everything else. The dates are exact and in different years.
		a := c08WideFacts(r)
		L, _ = c07Node(a)
		b := cloneSpec(a)
		wideEdit = r.Intn(3)
		if wideEdit == 1 {
			// one fact moves to another year and place: its old and its new
			// form are in one input only
			var facts []*gen.Spec
			for _, k := range b.Kids {
				if (k.Tag == "RESI" || k.Tag == "EVEN") && len(k.Kids) > 0 && k.Kids[0].Tag == "DATE" {
					facts = append(facts, k)
				}
			}
			if len(facts) == 0 {
				wideEdit = 0
			} else {
				f := facts[r.Intn(len(facts))]
				f.Kids[0].Value = fmt.Sprint(2100 + r.Intn(50))
				f.Kids = append(f.Kids, &gen.Spec{Tag: "PLAC", Value: "Moved Town"})
			}
		}
		R, _ = c07Node(b)
		if R != nil && wideEdit != 2 {
			c07Permute(R, r)
		}
	}
	if L == nil || R == nil {
		c.HarnessError("C08: generated pair does not decode")
		return
	}
	lt, rt := c07Text(L), c07Text(R)
	payload := map[string]interface{}{"left": lt, "right": rt, "workload": kind}
	ln, rn := c08CountNodes(L), c08CountNodes(R)
	snap := func(op string) bool {
		c.Count("purity-snapshots", 1)
		if a, b := c07Text(L), c07Text(R); a != lt || b != rt || c08CountNodes(L) != ln || c08CountNodes(R) != rn {
			which := "left"
			if a == lt {
				which = "right"
			}
			c.Violation("inputs-modified:"+op, fmt.Sprintf("%s changed the %s input:\nbefore:\n%s\nafter:\n%s", op, which, map[bool]string{true: lt, false: rt}[which == "left"], map[bool]string{true: a, false: b}[which == "left"]), payload)
			return false
		}
		return true
	}
	ck := &c08Checker{c: c, leftPar: map[gedcom.Node]gedcom.Node{}, rightPar: map[gedcom.Node]gedcom.Node{}, leftDep: map[gedcom.Node]int{}, rightDep: map[gedcom.Node]int{}, op: "CompareNodes", payload: payload}
	c08Index(L, ck.leftPar, ck.leftDep, 0)
	c08Index(R, ck.rightPar, ck.rightDep, 0)
	d := gedcom.CompareNodes(L, R)
	c.Count("diffs", 1)
	if !snap("CompareNodes") {
		return
	}
	ck.all(d, L, R)
	one, two := c08Shape(d)
	if one > 0 && two > 0 {
		c.NontrivialStr(lt + "\x00" + rt)
	}
	// constructed expectations
	if kind == "unique-leaves" {
		for _, e := range c08AllEntries(d) {
			for side, tags := range map[string][]string{"left": uniqueLeft, "right": uniqueRight} {
				for _, t := range tags {
					var n gedcom.Node
					if !gedcom.IsNil(e.Left) && e.Left.Tag().Tag() == t {
						n = e.Left
					}
					if !gedcom.IsNil(e.Right) && e.Right.Tag().Tag() == t {
						n = e.Right
					}
					if n == nil {
						continue
					}
					c.Count("one-sided-by-construction", 1)
					wantLeft := side == "left"
					if gedcom.IsNil(e.Left) == wantLeft || gedcom.IsNil(e.Right) != wantLeft {
						c.Violation("one-sided-expected:CompareNodes", fmt.Sprintf("leaf %s exists only in the %s input but its entry is Left=%s Right=%s", t, side, gen.Describe(e.Left), gen.Describe(e.Right)), payload)
					}
				}
			}
		}
		if d.IsDeepEqual() {
			c.Violation("isdeepequal-true-for-different-trees:IsDeepEqual", "inputs differ by uniquely tagged leaves but IsDeepEqual() is true", payload)
		}
	}
	if kind == "relabelled-lines" {
		for _, e := range c08AllEntries(d) {
			if gedcom.IsNil(e.Right) || !strings.HasPrefix(e.Right.Pointer(), "ZQ") || !c08PlainKind(e.Right) {
				continue
			}
			c.Count("one-sided-by-construction", 1)
			c.Class("relabelled-kind", fmt.Sprintf("%T", e.Right))
			if !gedcom.IsNil(e.Left) {
				c.Violation("one-sided-expected:CompareNodes", fmt.Sprintf("the line %s exists in the right input only (no line of the left input has that cross-reference id) but its entry is two-sided with %s", gen.Describe(e.Right), gen.Describe(e.Left)), payload)
			}
		}
		if len(relabelled) > 0 && d.IsDeepEqual() {
			c.Violation("isdeepequal-true-for-different-trees:IsDeepEqual", "the inputs differ by the cross-reference id of a line but IsDeepEqual() is true\n"+d.String(), payload)
		}
	}
	if kind == "wide-facts" && wideEdit == 1 {
		c.Count("one-sided-by-construction", 1)
		if d.IsDeepEqual() {
			c.Violation("isdeepequal-true-for-different-trees:IsDeepEqual", "one residence or event has another year and place in the right input but IsDeepEqual() is true\n"+d.String(), payload)
		}
	}
	if kind == "permuted-copy" || (kind == "wide-facts" && wideEdit != 1) {
		// A tree and its re-ordered copy ARE deep-equal inputs (the property's
		// own example); the library's DeepEqual is not asked, because a change
		// that makes a node unequal to its own copy would silence the demand.
		// Only the listed C07 findings are kept out: node equality that is not
		// symmetric or not transitive on the nodes present.
		all := append(c07All(L), c07All(R)...)
		// (the listed findings are about DATE lines only: an equality of
		// another kind that is not symmetric or not transitive keeps nothing out)
		if !strings.Contains(c07AsymKinds(all, all)+"+"+c07NonTransitiveKinds(all), "DATE(") {
			c.Count("all-two-sided-demanded", 1)
			if !d.IsDeepEqual() || one != 0 {
				c.Violation("deep-equal-inputs-not-all-two-sided:CompareNodes", fmt.Sprintf("the inputs are a tree and its re-ordered copy but IsDeepEqual()=%v and %d one-sided entries\n%s", d.IsDeepEqual(), one, d.String()), payload)
			}
		}
	}
	// every operation, in random order, twice; inputs must stay untouched
	ops := []string{"String", "IsDeepEqual", "Sort", "Tag", "String", "IsDeepEqual", "Sort", "Tag"}
	perm := r.Perm(len(ops))
	for _, pi := range perm {
		op := ops[pi]
		switch op {
		case "String":
			_ = d.String()
		case "IsDeepEqual":
			_ = d.IsDeepEqual()
		case "Sort":
			d.Sort()
			c.Count("sorts", 1)
		case "Tag":
			for _, e := range c08AllEntries(d) {
				_ = e.Tag()
			}
		}
		if !snap(op) {
			return
		}
		if op == "Sort" {
			ck2 := &c08Checker{c: c, leftPar: ck.leftPar, rightPar: ck.rightPar, leftDep: ck.leftDep, rightDep: ck.rightDep, op: "after-Sort", payload: payload}
			ck2.all(d, L, R)
		}
	}
	// a second diff of the same inputs must print the same (inputs unchanged => same result)
	d2 := gedcom.CompareNodes(L, R)
	d2.Sort()
	if a, b := d.String(), d2.String(); a != b {
		c.Violation("unstable-diff:CompareNodes", "comparing the same inputs again (and sorting) prints a different diff:\n"+a+"\n---\n"+b, payload)
	}
	if c.WantSample(kind) {
		c.Sample(kind, map[string]interface{}{"left": clip(lt, 250), "right": clip(rt, 250), "diff": clip(d.String(), 300)})
	}
	_ = strings.TrimSpace
}
