package props

import (
	"encoding/json"
	"fmt"
	"math"
	"reflect"
	"regexp"
	"strconv"
	"strings"

	"github.com/elliotchance/gedcom/v39"
	"github.com/elliotchance/gedcom/v39/q"

	"verif/fw"
	"verif/gen"
)

// C16 — query results equal what the Go API gives.
//
// The typed generator emits a query string together with a closure that
// computes the expected value by calling the Go API directly (hand-written
// accessor table, own list semantics for map/First/Last/Length/Only/Combine/
// NodesWithTagPath/objects/variables, own operator semantics).

type c16Acc struct {
	name string
	out  string // result type name; "[]T" for lists
	fn   func(v interface{}) interface{}
}

// accessor table: element type -> accessors
var c16Table = map[string][]c16Acc{
	"Indi": {
		{"Name", "Name", func(v interface{}) interface{} { return v.(*gedcom.IndividualNode).Name() }},
		{"Names", "[]Name", func(v interface{}) interface{} { return v.(*gedcom.IndividualNode).Names() }},
		{"Sex", "Sex", func(v interface{}) interface{} { return v.(*gedcom.IndividualNode).Sex() }},
		{"Pointer", "str", func(v interface{}) interface{} { return v.(*gedcom.IndividualNode).Pointer() }},
		{"String", "str", func(v interface{}) interface{} { return v.(*gedcom.IndividualNode).String() }},
		{"Births", "[]Node", func(v interface{}) interface{} { return v.(*gedcom.IndividualNode).Births() }},
		{"Deaths", "[]Node", func(v interface{}) interface{} { return v.(*gedcom.IndividualNode).Deaths() }},
		{"Baptisms", "[]Node", func(v interface{}) interface{} { return v.(*gedcom.IndividualNode).Baptisms() }},
		{"Burials", "[]Node", func(v interface{}) interface{} { return v.(*gedcom.IndividualNode).Burials() }},
		{"Families", "[]Fam", func(v interface{}) interface{} { return v.(*gedcom.IndividualNode).Families() }},
		{"Spouses", "[]Indi", func(v interface{}) interface{} { return v.(*gedcom.IndividualNode).Spouses() }},
		{"Parents", "[]Fam", func(v interface{}) interface{} { return v.(*gedcom.IndividualNode).Parents() }},
		{"AllEvents", "[]Node", func(v interface{}) interface{} { return v.(*gedcom.IndividualNode).AllEvents() }},
		{"Nodes", "[]Node", func(v interface{}) interface{} { return v.(*gedcom.IndividualNode).Nodes() }},
		{"Birth", "Date", func(v interface{}) interface{} { d, _ := v.(*gedcom.IndividualNode).Birth(); return d }},
		{"Death", "Date", func(v interface{}) interface{} { d, _ := v.(*gedcom.IndividualNode).Death(); return d }},
		{"UniqueIDs", "[]Node", func(v interface{}) interface{} { return v.(*gedcom.IndividualNode).UniqueIDs() }},
		{"Value", "str", func(v interface{}) interface{} { return v.(*gedcom.IndividualNode).Value() }},
	},
	"Fam": {
		{"Husband", "Husb", func(v interface{}) interface{} { return v.(*gedcom.FamilyNode).Husband() }},
		{"Wife", "Wife", func(v interface{}) interface{} { return v.(*gedcom.FamilyNode).Wife() }},
		{"Children", "[]Child", func(v interface{}) interface{} { return v.(*gedcom.FamilyNode).Children() }},
		{"Pointer", "str", func(v interface{}) interface{} { return v.(*gedcom.FamilyNode).Pointer() }},
		{"String", "str", func(v interface{}) interface{} { return v.(*gedcom.FamilyNode).String() }},
		{"Nodes", "[]Node", func(v interface{}) interface{} { return v.(*gedcom.FamilyNode).Nodes() }},
	},
	"Name": {
		{"String", "str", func(v interface{}) interface{} { return v.(*gedcom.NameNode).String() }},
		{"GivenName", "str", func(v interface{}) interface{} { return v.(*gedcom.NameNode).GivenName() }},
		{"Surname", "str", func(v interface{}) interface{} { return v.(*gedcom.NameNode).Surname() }},
		{"Value", "str", func(v interface{}) interface{} { return v.(*gedcom.NameNode).Value() }},
		{"Title", "str", func(v interface{}) interface{} { return v.(*gedcom.NameNode).Title() }},
	},
	"Sex": {
		{"String", "str", func(v interface{}) interface{} { return v.(*gedcom.SexNode).String() }},
		{"IsMale", "bool", func(v interface{}) interface{} { return v.(*gedcom.SexNode).IsMale() }},
		{"IsFemale", "bool", func(v interface{}) interface{} { return v.(*gedcom.SexNode).IsFemale() }},
	},
	"Date": {
		{"String", "str", func(v interface{}) interface{} { return v.(*gedcom.DateNode).String() }},
		{"Value", "str", func(v interface{}) interface{} { return v.(*gedcom.DateNode).Value() }},
		{"IsValid", "bool", func(v interface{}) interface{} { return v.(*gedcom.DateNode).IsValid() }},
		{"Years", "num", func(v interface{}) interface{} { return v.(*gedcom.DateNode).Years() }},
	},
	"Husb": {
		{"Individual", "Indi", func(v interface{}) interface{} { return v.(*gedcom.HusbandNode).Individual() }},
		{"String", "str", func(v interface{}) interface{} { return v.(*gedcom.HusbandNode).String() }},
		{"Value", "str", func(v interface{}) interface{} { return v.(*gedcom.HusbandNode).Value() }},
	},
	"Wife": {
		{"Individual", "Indi", func(v interface{}) interface{} { return v.(*gedcom.WifeNode).Individual() }},
		{"String", "str", func(v interface{}) interface{} { return v.(*gedcom.WifeNode).String() }},
	},
	"Child": {
		{"Individual", "Indi", func(v interface{}) interface{} { return v.(*gedcom.ChildNode).Individual() }},
		{"Value", "str", func(v interface{}) interface{} { return v.(*gedcom.ChildNode).Value() }},
	},
	"Node": {
		{"Value", "str", func(v interface{}) interface{} { return v.(gedcom.Node).Value() }},
		{"Pointer", "str", func(v interface{}) interface{} { return v.(gedcom.Node).Pointer() }},
		{"Nodes", "[]Node", func(v interface{}) interface{} { return v.(gedcom.Node).Nodes() }},
		{"String", "str", func(v interface{}) interface{} { return v.(gedcom.Node).String() }},
	},
}

// c16List converts any Go slice to []interface{}; ok=false if v is not a slice.
func c16List(v interface{}) ([]interface{}, bool) {
	if v == nil {
		return nil, false
	}
	rv := reflect.ValueOf(v)
	if rv.Kind() != reflect.Slice {
		return nil, false
	}
	out := make([]interface{}, rv.Len())
	for i := range out {
		out[i] = rv.Index(i).Interface()
	}
	return out, true
}

// c16Map applies fn to v, or to each element (recursively) when v is a list.
func c16Map(v interface{}, fn func(interface{}) interface{}) interface{} {
	if l, ok := c16List(v); ok {
		out := make([]interface{}, len(l))
		for i, x := range l {
			out[i] = c16Map(x, fn)
		}
		return out
	}
	return fn(v)
}

type c16Expr struct {
	q    string
	typ  string
	eval func(doc *gedcom.Document) interface{}
	// parts for laws
	nullable bool
}

func c16IsList(t string) bool { return strings.HasPrefix(t, "[]") }
func c16Elem(t string) string {
	for c16IsList(t) {
		t = t[2:]
	}
	return t
}

// --- operator reference ---

var c16Numeric = regexp.MustCompile(`^[+-]?\d+(\.\d+)?$`)

// c16OpRef returns (value, defined). defined=false: grey zone, only the laws apply.
func c16OpRef(l, r, op string) (bool, bool) {
	ln, rn := c16Numeric.MatchString(l), c16Numeric.MatchString(r)
	_, le := strconv.ParseFloat(l, 64)
	_, re := strconv.ParseFloat(r, 64)
	// a number with blanks around it: the documentation says both that text
	// which represents a number is compared as a number and that blanks at
	// the ends of text are ignored; which of the two comes first is not said
	// (today: text). Grey zone, only the laws apply.
	padded := func(x string, e error) bool {
		if e == nil {
			return false
		}
		_, e2 := strconv.ParseFloat(strings.TrimSpace(x), 64)
		return e2 == nil
	}
	if padded(l, le) || padded(r, re) {
		return false, false
	}
	cmp := 0
	switch {
	case ln && rn:
		a, _ := strconv.ParseFloat(l, 64)
		b, _ := strconv.ParseFloat(r, 64)
		switch {
		case a < b:
			cmp = -1
		case a > b:
			cmp = 1
		}
	case le != nil || re != nil:
		a, b := strings.TrimSpace(strings.ToLower(l)), strings.TrimSpace(strings.ToLower(r))
		cmp = strings.Compare(a, b)
	default:
		return false, false
	}
	switch op {
	case "=":
		return cmp == 0, true
	case "!=":
		return cmp != 0, true
	case "<":
		return cmp < 0, true
	case "<=":
		return cmp <= 0, true
	case ">":
		return cmp > 0, true
	case ">=":
		return cmp >= 0, true
	}
	return false, false
}

var c16Ops = []string{"=", "!=", "<", "<=", ">", ">="}

var c16Pool = []string{
	"1", "01", "1.0", "1.230", "1.23", "1.2301", "-1", "+1", "10", "9", "0", "-0", "0.0", "100", "99.99", "123456789012345678", "123456789012345679",
	"abc", "ABC", " abc ", "abd", "ab", "", " ", "a b", "a  b", "John Smith", "  john SMITH ", "John  Smith", "Jon", "John", "Z", "a", "é", "É", "10a", "a10", "1 0",
	// letters for which lower-casing, upper-casing and case folding disagree
	"ΣΟΦΟΣ", "σοφος", "σοφοσ", "ſ", "s", "İzmir", "izmir", "i̇zmir", "µ", "μ", "ß", "ss", "\u212A", "k",
	"1e5", "100000", "0x10", "16", "inf", "-inf", "Inf", "infinity", "nan", "NaN", "1_0", ".5", "0.5", "5.", "5", "1,5", "+", "-", "1.2.3", "true", "false", "<nil>",
	// numbers with blanks around them
	" 12", "12.0 ", " 5 ", "12",
}

// --- JSON normalisation ---

func c16Norm(v interface{}) (interface{}, error) {
	b, err := json.Marshal(v)
	if err != nil {
		return nil, err
	}
	var out interface{}
	if err := json.Unmarshal(b, &out); err != nil {
		return nil, err
	}
	return out, nil
}

// c16Same compares normalised JSON values; null and [] are interchangeable
// (the concrete Go slice type is not part of the property).
func c16Same(a, b interface{}) bool {
	isEmpty := func(x interface{}) bool {
		if x == nil {
			return true
		}
		l, ok := x.([]interface{})
		return ok && len(l) == 0
	}
	if isEmpty(a) && isEmpty(b) {
		return true
	}
	switch x := a.(type) {
	case []interface{}:
		y, ok := b.([]interface{})
		if !ok || len(x) != len(y) {
			return false
		}
		for i := range x {
			if !c16Same(x[i], y[i]) {
				return false
			}
		}
		return true
	case map[string]interface{}:
		y, ok := b.(map[string]interface{})
		if !ok || len(x) != len(y) {
			return false
		}
		for k, v := range x {
			w, ok := y[k]
			if !ok || !c16Same(v, w) {
				return false
			}
		}
		return true
	case float64:
		y, ok := b.(float64)
		return ok && (x == y || math.Abs(x-y) < 1e-9*math.Max(1, math.Abs(x)))
	}
	return reflect.DeepEqual(a, b)
}

func c16JSON(v interface{}) string {
	b, _ := json.Marshal(v)
	return clip(string(b), 600)
}

// --- typed generator ---

type c16Gen struct {
	r *fw.Rand
	// set by the reference closures when First/Last was applied to an empty list
	emptyFirstLast *bool // a First/Last stage met an empty list that the engine holds as a nil slice
	emptyNonNil    *bool // ... an empty list that the engine holds as an empty, non-nil slice
}

// noteEmpty: a First/Last stage is about to be applied to an empty list. The
// recorded defect (First/Last of a NIL slice is nil, which later stages count
// as one item) only concerns lists the engine holds as nil slices, which is
// what most accessors return for "none". An empty but non-nil slice (Only that
// matched nothing, First(0)) is handled correctly, so it is told apart by
// asking the engine itself for the value in front of the stage.
func (g *c16Gen) noteEmpty(prefix string, d *gedcom.Document) {
	pv, err := c16Eval(prefix, []*gedcom.Document{d})
	isNil := err == nil && pv == nil
	if err == nil && pv != nil {
		if rv := reflect.ValueOf(pv); rv.Kind() == reflect.Slice && rv.IsNil() {
			isNil = true
		}
	}
	if isNil || err != nil {
		*g.emptyFirstLast = true
	} else if g.emptyNonNil != nil {
		*g.emptyNonNil = true
	}
}

func (g *c16Gen) source() c16Expr {
	switch g.r.Intn(4) {
	case 0:
		return c16Expr{q: ".Families", typ: "[]Fam", eval: func(d *gedcom.Document) interface{} { return d.Families() }}
	case 1:
		return c16Expr{q: ".Nodes", typ: "[]Node", eval: func(d *gedcom.Document) interface{} { return d.Nodes() }}
	}
	return c16Expr{q: ".Individuals", typ: "[]Indi", eval: func(d *gedcom.Document) interface{} { return d.Individuals() }}
}

// chain: an accessor chain applied to one item of type t (used in conditions and objects)
type c16Chain struct {
	q   string
	typ string
	fn  func(v interface{}) interface{}
}

func (g *c16Gen) chain(t string, want func(string) bool, maxLen int) (c16Chain, bool) {
	for tries := 0; tries < 30; tries++ {
		cur := t
		var qs []string
		fns := []func(interface{}) interface{}{}
		n := g.r.Range(1, maxLen)
		ok := true
		for k := 0; k < n; k++ {
			accs := c16Table[c16Elem(cur)]
			if len(accs) == 0 || strings.HasPrefix(cur, "[][]") || (c16IsList(t) == false && c16IsList(cur)) {
				// nothing to call, or an accessor on a list of lists / on a list inside a chain (not mapped by the engine)
				ok = k > 0
				break
			}
			a := accs[g.r.Intn(len(accs))]
			qs = append(qs, "."+a.name)
			fn := a.fn
			fns = append(fns, func(v interface{}) interface{} { return c16Map(v, c16NilSafe(fn)) })
			if c16IsList(cur) {
				cur = "[]" + a.out
			} else {
				cur = a.out
			}
			if want != nil && want(cur) && g.r.Bool() {
				break
			}
		}
		if !ok || (want != nil && !want(cur)) {
			continue
		}
		return c16Chain{q: strings.Join(qs, " | "), typ: cur, fn: func(v interface{}) interface{} {
			for _, f := range fns {
				v = f(v)
			}
			return v
		}}, true
	}
	return c16Chain{}, false
}

// c16NilSafe: the Go API is nil-receiver safe for the accessors in the table;
// an untyped nil (a missing interface value) stays nil.
func c16NilSafe(fn func(interface{}) interface{}) func(interface{}) interface{} {
	return func(v interface{}) interface{} {
		if v == nil {
			return nil
		}
		return fn(v)
	}
}

func c16Scalar(t string) bool { return t == "str" || t == "bool" || t == "num" }

func c16Str(v interface{}) string {
	if s, ok := v.(string); ok {
		return s
	}
	return fmt.Sprintf("%v", v)
}

type c16Cond struct {
	q  string
	fn func(item interface{}) (bool, bool) // value, defined
}

func (g *c16Gen) cond(t string) (c16Cond, c16Cond, bool) {
	// scalar chain <op> constant ; also returns the complementary condition.
	// (An operator applied to a list maps over it, so the left side must be a scalar.)
	ch, ok := g.chain(t, func(x string) bool { return c16Scalar(x) }, 2)
	if !ok {
		return c16Cond{}, c16Cond{}, false
	}
	left := ch.q
	lfn := ch.fn
	consts := []string{`"I1"`, `"I3"`, `"m"`, `"John"`, `"true"`, `"false"`, "0", "1", "2", "1900", `"1850.5"`, `""`, `"Male"`}
	k := consts[g.r.Intn(len(consts))]
	kv := strings.Trim(k, `"`)
	op := c16Ops[g.r.Intn(len(c16Ops))]
	comp := map[string]string{"=": "!=", "!=": "=", "<": ">=", ">=": "<", ">": "<=", "<=": ">"}[op]
	mk := func(op string) c16Cond {
		return c16Cond{q: left + " " + op + " " + k, fn: func(item interface{}) (bool, bool) {
			return c16OpRef(c16Str(lfn(item)), kv, op)
		}}
	}
	return mk(op), mk(comp), true
}

// build returns a random well-typed query with its expected-value closure.
func (g *c16Gen) build() (c16Expr, string) {
	e := g.source()
	shape := "source"
	steps := g.r.Range(0, 3)
	for s := 0; s < steps; s++ {
		prev := e
		switch g.r.Intn(9) {
		case 0, 1, 2: // accessor (maps over lists)
			accs := c16Table[c16Elem(e.typ)]
			if len(accs) == 0 || strings.HasPrefix(e.typ, "[][]") {
				continue
			}
			a := accs[g.r.Intn(len(accs))]
			fn := a.fn
			nt := a.out
			if c16IsList(e.typ) {
				nt = "[]" + a.out
			}
			e = c16Expr{q: prev.q + " | ." + a.name, typ: nt, eval: func(d *gedcom.Document) interface{} { return c16Map(prev.eval(d), c16NilSafe(fn)) }}
			shape = "accessor"
		case 3: // First(n)
			n := g.r.Intn(5)
			if g.r.Chance(1, 5) {
				n = 1000
			}
			e = c16Expr{q: fmt.Sprintf("%s | First(%d)", prev.q, n), typ: c16AsList(prev.typ), eval: func(d *gedcom.Document) interface{} {
				v := prev.eval(d)
				if l, ok := c16List(v); ok && len(l) == 0 {
					g.noteEmpty(prev.q, d)
				}
				return c16First(v, n)
			}}
			shape = "First"
		case 4: // Last(n)
			n := g.r.Intn(5)
			if g.r.Chance(1, 5) {
				n = 1000
			}
			e = c16Expr{q: fmt.Sprintf("%s | Last(%d)", prev.q, n), typ: c16AsList(prev.typ), eval: func(d *gedcom.Document) interface{} {
				v := prev.eval(d)
				if l, ok := c16List(v); ok && len(l) == 0 {
					g.noteEmpty(prev.q, d)
				}
				return c16Last(v, n)
			}}
			shape = "Last"
		case 5: // Only
			if !c16IsList(prev.typ) || c16IsList(prev.typ[2:]) {
				continue
			}
			cnd, _, ok := g.cond(prev.typ[2:])
			if !ok {
				continue
			}
			e = c16Expr{q: prev.q + " | Only(" + cnd.q + ")", typ: prev.typ, eval: func(d *gedcom.Document) interface{} {
				l, _ := c16List(prev.eval(d))
				out := []interface{}{}
				for _, it := range l {
					v, def := cnd.fn(it)
					if !def {
						return c16Undefined{}
					}
					if v {
						out = append(out, it)
					}
				}
				return out
			}}
			shape = "Only"
		case 6: // Combine(E, E2) of the same type
			other := g.source()
			if other.typ != prev.typ {
				other = prev
			}
			e = c16Expr{q: "Combine(" + prev.q + ", " + other.q + ")", typ: prev.typ, eval: func(d *gedcom.Document) interface{} {
				a, _ := c16List(prev.eval(d))
				b, _ := c16List(other.eval(d))
				return append(append([]interface{}{}, a...), b...)
			}}
			if !c16IsList(prev.typ) {
				e = prev
				continue
			}
			shape = "Combine"
		case 7: // NodesWithTagPath
			if !c16IsList(prev.typ) || c16IsList(prev.typ[2:]) || c16Scalar(prev.typ[2:]) {
				continue
			}
			paths := [][]string{{"BIRT"}, {"BIRT", "DATE"}, {"DEAT", "DATE"}, {"NAME"}, {"NOPE"}, {"BIRT", "NOPE"}, {"FAMS"}, {"HUSB"}, {"MARR", "DATE"}}
			p := paths[g.r.Intn(len(paths))]
			var qa []string
			for _, t := range p {
				qa = append(qa, `"`+t+`"`)
			}
			e = c16Expr{q: prev.q + " | NodesWithTagPath(" + strings.Join(qa, ", ") + ")", typ: "[]Node", eval: func(d *gedcom.Document) interface{} {
				l, _ := c16List(prev.eval(d))
				out := []interface{}{}
				for _, it := range l {
					n, ok := it.(gedcom.Node)
					if !ok || gedcom.IsNil(n) {
						continue
					}
					out = append(out, c16TagPath(n, p)...)
				}
				return out
			}}
			shape = "NodesWithTagPath"
		case 8: // object
			if c16IsList(c16Elem0(prev.typ)) || c16Scalar(c16Elem(prev.typ)) {
				continue
			}
			nk := g.r.Range(0, 3)
			var kv []string
			type field struct {
				k string
				c c16Chain
			}
			var fs []field
			for k := 0; k < nk; k++ {
				ch, ok := g.chain(c16Elem(prev.typ), nil, 2)
				if !ok {
					continue
				}
				key := fmt.Sprintf("f%d", k)
				kv = append(kv, key+": "+ch.q)
				fs = append(fs, field{key, ch})
			}
			e = c16Expr{q: prev.q + " | {" + strings.Join(kv, ", ") + "}", typ: "obj", eval: func(d *gedcom.Document) interface{} {
				return c16Map(prev.eval(d), func(it interface{}) interface{} {
					m := map[string]interface{}{}
					for _, f := range fs {
						m[f.k] = f.c.fn(it)
					}
					return m
				})
			}}
			shape = "object"
			return e, shape
		}
		if e.typ == "obj" {
			break
		}
	}
	if g.r.Chance(1, 4) {
		e.q += " | Length"
		inner := e.eval
		e.eval = func(d *gedcom.Document) interface{} {
			if l, ok := c16List(inner(d)); ok {
				return len(l)
			}
			return 1
		}
		e.typ = "num"
		shape = "Length"
	}
	return e, shape
}

type c16Undefined struct{}

var c16Battery = []string{".Individuals | .Pointer", ".Families | .Pointer", ".Nodes | .Pointer", ".Families | .Children | Length", ".Individuals | .Families | Length", ".Individuals | .Nodes | Length"}

func c16Elem0(t string) string {
	if c16IsList(t) {
		return t[2:]
	}
	return t
}

func c16AsList(t string) string {
	if c16IsList(t) {
		return t
	}
	return "[]" + t
}

func c16First(v interface{}, n int) interface{} {
	if v == nil {
		return nil
	}
	l, ok := c16List(v)
	if !ok {
		l = []interface{}{v}
	}
	if n > len(l) {
		n = len(l)
	}
	return l[:n]
}

func c16Last(v interface{}, n int) interface{} {
	if v == nil {
		return nil
	}
	l, ok := c16List(v)
	if !ok {
		l = []interface{}{v}
	}
	if n > len(l) {
		n = len(l)
	}
	return l[len(l)-n:]
}

// c16TagPath: own tag-path lookup (children with tag p[0], then p[1] below them, ...).
func c16TagPath(n gedcom.Node, p []string) []interface{} {
	if len(p) == 0 {
		return []interface{}{n}
	}
	var out []interface{}
	for _, k := range n.Nodes() {
		if k.Tag().Tag() == p[0] {
			out = append(out, c16TagPath(k, p[1:])...)
		}
	}
	return out
}

// c16TopLevelStages splits a pipeline at the pipes that are not inside
// parentheses, braces or a string.
func c16TopLevelStages(qs string) []string {
	var out []string
	depth, inStr, start := 0, false, 0
	for i := 0; i < len(qs); i++ {
		switch ch := qs[i]; {
		case ch == '"':
			inStr = !inStr
		case inStr:
		case ch == '(' || ch == '{':
			depth++
		case ch == ')' || ch == '}':
			depth--
		case ch == '|' && depth == 0 && i > 0 && i+1 < len(qs) && qs[i-1] == ' ' && qs[i+1] == ' ':
			out = append(out, strings.TrimSpace(qs[start:i]))
			start = i + 1
		}
	}
	return append(out, strings.TrimSpace(qs[start:]))
}

// c16StageOnDocument: index (>= 1) of the last stage that evaluates without
// an error when it is applied to the document itself, or -1.
func c16StageOnDocument(stages []string, fresh func() *gedcom.Document) int {
	for k := len(stages) - 1; k >= 1; k-- {
		if _, err := c16Eval(stages[k], []*gedcom.Document{fresh()}); err == nil {
			return k
		}
	}
	return -1
}

func c16N(tier string) int {
	if tier == "thorough" {
		return 8000 // x40 queries
	}
	return 700
}

func c16OpCases() int { return len(c16Pool) }

func init() {
	fw.Register(&fw.Prop{
		ID:      "C16",
		CaseCPU: 120,
		Title:   "Query results equal what the Go API gives",
		Cases:   func(tier string, seed uint64) int { return c16OpCases() + c16N(tier) },
		Run:     c16Run,
		Rule: "(1) exhaustive operand pairs: every ordered pair from a pool of ~70 numeric/text/mixed/grey-zone values (incl. letters for which lower-casing and case folding disagree) under all six operators, evaluated as a real query; reference = numeric comparison iff both operands are plain decimals, case-insensitive trimmed text comparison iff an operand is not a float at all, otherwise only the laws (!= negates =, exactly one of < = >, <= and >= are the unions). " +
			"(2) typed generator: well-typed pipelines of up to 4 stages over a hand-written table of ~50 accessors on Document/Individual/Family/Name/Sex/Date/Husband/Wife/Child/Node, First/Last with n in 0..4 and 1000, Length, Only with scalar conditions, Combine, NodesWithTagPath, objects, each with a Go closure computing the expected value through the API; compared JSON-normalised on documents of 0, 1, 3 and ~20 people. " +
			"(3) metamorphic laws without reference: variable inlining, Combine(E,E)|Length = 2x, Only(p)/Only(not p) partition in order, First(n)++Last(len-n) = E, First(n)|Length = min(n,len), determinism (re-evaluation, fresh engine, fresh decode). non-trivial = query evaluated to a non-empty value; distinct by query text + document",
		Floors: func(a *fw.Agg, tier string) []string {
			var f []string
			for _, k := range []string{"operator-pairs", "operator-grey-zone", "reference-comparisons", "law-inlining", "law-combine-length", "law-partition", "law-first-last", "law-determinism"} {
				if a.Counters[k] < 50 {
					f = append(f, fmt.Sprintf("%s=%d < 50", k, a.Counters[k]))
				}
			}
			for _, k := range []string{"accessor", "First", "Last", "Only", "Combine", "NodesWithTagPath", "object", "Length"} {
				if a.Class("shape", k) < 20 {
					f = append(f, fmt.Sprintf("query shape %s generated %d times < 20", k, a.Class("shape", k)))
				}
			}
			return f
		},
		Assumptions: []string{
			"JSON-normalised comparison; null and [] are interchangeable (the concrete Go slice type is not part of the property)",
			"well-typed queries only (ill-typed ones are C15's subject); conditions compare scalars; time-dependent accessors (Age, IsLiving) are not in the table",
		},
	})
}

func c16Eval(qs string, docs []*gedcom.Document) (interface{}, error) {
	engine, err := q.NewParser().ParseString(qs)
	if err != nil {
		return nil, fmt.Errorf("parse: %v", err)
	}
	return engine.Evaluate(docs)
}

func c16Operators(c *fw.Ctx, li int) {
	doc := gedcom.NewDocument()
	l := c16Pool[li]
	for _, r := range c16Pool {
		res := map[string]bool{}
		for _, op := range c16Ops {
			qs := fmt.Sprintf(`"%s" %s "%s"`, l, op, r)
			v, err := c16Eval(qs, []*gedcom.Document{doc})
			b, ok := v.(bool)
			if err != nil || !ok {
				c.Violation("operator-no-boolean:"+op, fmt.Sprintf("%s evaluated to %v (%T), err=%v", qs, v, v, err), map[string]string{"query": qs})
				return
			}
			res[op] = b
		}
		c.Count("operator-pairs", 1)
		c.NontrivialStr("op:" + l + "\x00" + r)
		class := "grey-zone"
		if _, def := c16OpRef(l, r, "="); def {
			class = "text"
			if c16Numeric.MatchString(l) && c16Numeric.MatchString(r) {
				class = "numeric"
			}
		} else {
			c.Count("operator-grey-zone", 1)
		}
		pl := map[string]interface{}{"left": l, "right": r, "results": res}
		for _, op := range c16Ops {
			if want, def := c16OpRef(l, r, op); def && want != res[op] {
				c.Violation("reference:operator"+op+":"+class, fmt.Sprintf(`"%s" %s "%s" = %v, the documented semantics give %v (%s comparison)`, l, op, r, res[op], want, class), pl)
			}
		}
		if res["!="] == res["="] {
			c.Violation("law-negation:"+class, fmt.Sprintf(`"%s" = "%s" is %v and != is %v`, l, r, res["="], res["!="]), pl)
		}
		n := 0
		for _, op := range []string{"<", "=", ">"} {
			if res[op] {
				n++
			}
		}
		if n != 1 {
			c.Violation("law-trichotomy:"+class, fmt.Sprintf(`"%s" vs "%s": < is %v, = is %v, > is %v (exactly one must hold)`, l, r, res["<"], res["="], res[">"]), pl)
		}
		if res["<="] != (res["<"] || res["="]) || res[">="] != (res[">"] || res["="]) {
			c.Violation("law-or-equal:"+class, fmt.Sprintf(`"%s" vs "%s": <= %v, >= %v inconsistent with < %v = %v > %v`, l, r, res["<="], res[">="], res["<"], res["="], res[">"]), pl)
		}
	}
	if c.WantSample("operators") {
		c.Sample("operators", map[string]interface{}{"left": l, "vs": "all 59 pool values x 6 operators"})
	}
}

func c16Run(c *fw.Ctx, i int) {
	if i < c16OpCases() {
		c16Operators(c, i)
		return
	}
	r := c.R
	sizes := []int{0, 1, 3, 20, 0, 1, 3, 150}
	g := gen.NewFG(r, gen.FGOpts{People: sizes[i%8], MultiNames: true, MissingBits: true, WithUIDs: true})
	text := g.Text()
	if sizes[i%8] == 0 {
		text = "0 HEAD\n0 TRLR\n"
	}
	fresh := func() *gedcom.Document {
		d, err := gedcom.NewDocumentFromString(text)
		if err != nil {
			panic("C16 document does not decode: " + err.Error())
		}
		return d
	}
	// Length of anything that is not a list is 1 (documented), whatever it is
	// made of: objects with any number of fields, the places map, a number
	{
		n, _ := c16Eval(".Individuals | Length", []*gedcom.Document{fresh()})
		for _, lq := range []struct {
			q    string
			want interface{}
		}{
			{`{} | Length`, 1}, {`{a: 1, b: 2} | Length`, 1}, {`{a: .Individuals, b: .Families, c: 3} | Length`, 1}, {`.Places | Length`, 1},
			{`.Individuals | Length | Length`, 1}, {`{a: 1} | Length`, 1}, {`{x: {a: 1, b: 2, c: 3} | Length}`, map[string]interface{}{"x": 1}},
			{`.Individuals | Only({a: .Pointer, b: .Name} | Length = 1) | Length`, n}, {`.Individuals | Only({} | Length = 0) | Length`, 0},
		} {
			got, err := c16Eval(lq.q, []*gedcom.Document{fresh()})
			c.Count("law-length-of-a-non-list", 1)
			gn, _ := c16Norm(got)
			wn, _ := c16Norm(lq.want)
			if err != nil || !c16Same(gn, wn) {
				c.Violation("law-length-of-a-non-list", fmt.Sprintf("%s = %s (err %v), want %s: the length of anything that is not a list is 1", lq.q, c16JSON(got), err, c16JSON(lq.want)), map[string]interface{}{"query": lq.q, "gedcom": text})
			}
		}
	}
	sawEmpty, sawEmptyNonNil := false, false
	gg := &c16Gen{r: r, emptyFirstLast: &sawEmpty, emptyNonNil: &sawEmptyNonNil}
	for k := 0; k < 40; k++ {
		e, shape := gg.build()
		c.Class("shape", shape)
		payload := map[string]interface{}{"query": e.q, "gedcom": text}
		_ = payload
		doc := fresh()
		got, err := c16Eval(e.q, []*gedcom.Document{doc})
		sawEmpty, sawEmptyNonNil = false, false
		var want interface{}
		apiPanic := fw.Try(func() { want = e.eval(fresh()) })
		cause := ""
		if sawEmpty {
			// documented composition: First/Last of an empty (nil) list is nil, and nil counts as one item afterwards
			cause = ":after-First-or-Last-of-empty-list"
		} else if sawEmptyNonNil {
			cause = ":after-First-or-Last-of-an-empty-non-nil-list"
		}
		if apiPanic != nil {
			// the Go API itself panics on this chain (e.g. .Value on a missing *NameNode): the query must fail too
			c.Count("api-panics", 1)
			if err == nil {
				c.Violation("api-panics-but-query-succeeds:"+shape, fmt.Sprintf("%s\nthe direct API calls panic (%s) but the query returned %s", e.q, apiPanic.Msg, c16JSON(got)), payload)
			}
			continue
		}
		if err != nil {
			c.Violation("well-typed-query-fails:"+shape+cause, fmt.Sprintf("%s\nfailed: %v", e.q, clip(err.Error(), 300)), payload)
			continue
		}
		shape += cause
		undefined := false
		var chk func(v interface{})
		chk = func(v interface{}) {
			if _, ok := v.(c16Undefined); ok {
				undefined = true
			}
		}
		chk(want)
		gn, err1 := c16Norm(got)
		if err1 != nil {
			c.Count("result-not-json", 1)
			continue
		}
		if !undefined {
			wn, err2 := c16Norm(want)
			if err2 == nil {
				c.Count("reference-comparisons", 1)
				if !c16Same(gn, wn) {
					c.Violation("reference:"+shape, fmt.Sprintf("%s\nengine:   %s\nexpected: %s", e.q, c16JSON(got), c16JSON(want)), payload)
					continue
				}
			}
		}
		if l, ok := gn.([]interface{}); (ok && len(l) > 0) || (!ok && gn != nil) {
			c.NontrivialStr(e.q + "\x00" + text)
		}
		// a (read-only) query must not disturb the document: the same simple
		// queries asked of the used document and of a fresh decode must agree
		c.Count("law-document-unchanged", 1)
		for _, bq := range c16Battery {
			used, uerr := c16Eval(bq, []*gedcom.Document{doc})
			clean, cerr := c16Eval(bq, []*gedcom.Document{fresh()})
			un, _ := c16Norm(used)
			cn, _ := c16Norm(clean)
			if (uerr == nil) != (cerr == nil) || !c16Same(un, cn) {
				c.Violation("law-document-unchanged-by-query:"+shape, fmt.Sprintf("after evaluating %s\nthe query %s returns %s (err %v)\nbut on a fresh decode of the same text %s (err %v)", e.q, bq, c16JSON(used), uerr, c16JSON(clean), cerr), payload)
				break
			}
		}
		// determinism: same engine re-evaluated, fresh engine, fresh decode
		c.Count("law-determinism", 1)
		engine, _ := q.NewParser().ParseString(e.q)
		d2 := fresh()
		r1, e1 := engine.Evaluate([]*gedcom.Document{d2})
		r2, e2 := engine.Evaluate([]*gedcom.Document{d2})
		n1, _ := c16Norm(r1)
		n2, _ := c16Norm(r2)
		if e1 != nil || e2 != nil || !c16Same(n1, gn) || !c16Same(n2, gn) {
			c.Violation("law-determinism:"+shape, fmt.Sprintf("%s\nfirst evaluation: %s\nsame engine, same document again: %s / %s (errors %v %v)", e.q, c16JSON(got), c16JSON(r1), c16JSON(r2), e1, e2), payload)
		}
		// variable inlining
		c.Count("law-inlining", 1)
		vq := "V is " + e.q + "; V"
		stages := c16TopLevelStages(e.q)
		switch {
		case len(stages) >= 2 && r.Chance(1, 2) && c16StageOnDocument(stages, fresh) >= 0:
			// a variable that stands for one of the later stages: it is used
			// after a pipe, where the current item is not the document. Every
			// statement is also evaluated on the document by itself, so only a
			// stage that can be (Length, First(n), .Nodes, ...) is taken.
			k := c16StageOnDocument(stages, fresh)
			with := append([]string{}, stages...)
			with[k] = "V"
			vq = "V is " + stages[k] + "; " + strings.Join(with, " | ")
			c.Count("law-inlining-after-a-pipe", 1)
		case len(stages) >= 2 && r.Bool():
			vq = "V is " + stages[0] + "; V | " + strings.Join(stages[1:], " | ")
		}
		if rv, ev := c16Eval(vq, []*gedcom.Document{fresh()}); ev != nil {
			c.Violation("law-inlining:"+shape, fmt.Sprintf("%s fails (%v) although %s evaluates", vq, ev, e.q), payload)
		} else if nv, _ := c16Norm(rv); !c16Same(nv, gn) {
			c.Violation("law-inlining:"+shape, fmt.Sprintf("%s = %s\nbut %s = %s", vq, c16JSON(rv), e.q, c16JSON(got)), payload)
		}
		// variables that are looked up once per item (inside an object, inside
		// the condition of Only) on lists of every length
		if c16IsList(e.typ) {
			for _, pq := range [][2]string{
				{e.q + ` | { a: "k", n: 7 }`, `K is "k"; N is 7; ` + e.q + ` | { a: K, n: N }`},
				{e.q + ` | Only("k" = "k")`, `K is "k"; ` + e.q + ` | Only(K = "k")`},
				{e.q + ` | Only("k" != "k") | Length`, `K is "k"; ` + e.q + ` | Only(K != "k") | Length`},
			} {
				iv, ierr := c16Eval(pq[0], []*gedcom.Document{fresh()})
				if ierr != nil {
					continue
				}
				c.Count("law-inlining-per-item", 1)
				in, _ := c16Norm(iv)
				if rv, ev := c16Eval(pq[1], []*gedcom.Document{fresh()}); ev != nil {
					c.Violation("law-inlining-per-item:"+shape, fmt.Sprintf("%s fails (%v) although %s evaluates", pq[1], clip(ev.Error(), 200), pq[0]), payload)
					break
				} else if nv, _ := c16Norm(rv); !c16Same(nv, in) {
					c.Violation("law-inlining-per-item:"+shape, fmt.Sprintf("%s = %s\nbut %s = %s", pq[1], clip(c16JSON(rv), 300), pq[0], clip(c16JSON(iv), 300)), payload)
					break
				}
			}
		}
		// list laws
		if c16IsList(e.typ) {
			ln, lerr := c16Eval(e.q+" | Length", []*gedcom.Document{fresh()})
			length, ok := ln.(int)
			if lerr == nil && ok {
				c.Count("law-combine-length", 1)
				cq := "Combine(" + e.q + ", " + e.q + ") | Length"
				if cv, cerr := c16Eval(cq, []*gedcom.Document{fresh()}); cerr != nil || cv != 2*length {
					if !(length == 0 && cerr != nil) { // Combine of two untyped empties may legitimately fail
						c.Violation("law-combine-length:"+shape, fmt.Sprintf("%s = %v (err %v) but %s | Length = %d", cq, cv, cerr, e.q, length), payload)
					}
				}
				c.Count("law-first-last", 1)
				n := r.Intn(length + 2)
				fq := fmt.Sprintf("%s | First(%d)", e.q, n)
				rest := length - n
				if rest < 0 {
					rest = 0
				}
				lq := fmt.Sprintf("%s | Last(%d)", e.q, rest)
				fv, ferr := c16Eval(fq, []*gedcom.Document{fresh()})
				lv, lerr2 := c16Eval(lq, []*gedcom.Document{fresh()})
				if ferr != nil || lerr2 != nil {
					c.Violation("law-first-last:"+shape, fmt.Sprintf("%s / %s failed: %v %v", fq, lq, ferr, lerr2), payload)
				} else {
					fl, _ := c16List(fv)
					ll, _ := c16List(lv)
					want := n
					if want > length {
						want = length
					}
					if len(fl) != want {
						c.Violation("law-first-length:"+shape, fmt.Sprintf("%s has %d elements, want min(%d,%d)", fq, len(fl), n, length), payload)
					}
					joined, _ := c16Norm(append(append([]interface{}{}, fl...), ll...))
					if !c16Same(joined, gn) {
						c.Violation("law-first-last:"+shape, fmt.Sprintf("%s ++ %s != %s\n%s\n++ %s\nvs %s", fq, lq, e.q, c16JSON(fv), c16JSON(lv), c16JSON(got)), payload)
					}
				}
			}
			// partition
			if !c16IsList(e.typ[2:]) && !c16Scalar(e.typ[2:]) && e.typ != "[]obj" {
				if cnd, neg, ok := gg.cond(e.typ[2:]); ok {
					pv, perr := c16Eval(e.q+" | Only("+cnd.q+")", []*gedcom.Document{fresh()})
					nv, nerr := c16Eval(e.q+" | Only("+neg.q+")", []*gedcom.Document{fresh()})
					if perr == nil && nerr == nil {
						c.Count("law-partition", 1)
						pl, _ := c16List(pv)
						nl, _ := c16List(nv)
						all, _ := c16List(got)
						// merge preserving order: walk the original list
						pi, ni := 0, 0
						okp := len(pl)+len(nl) == len(all)
						for _, it := range all {
							in, _ := c16Norm(it)
							if pi < len(pl) {
								if x, _ := c16Norm(pl[pi]); c16Same(x, in) {
									pi++
									continue
								}
							}
							if ni < len(nl) {
								if x, _ := c16Norm(nl[ni]); c16Same(x, in) {
									ni++
									continue
								}
							}
							okp = false
							break
						}
						if !okp {
							c.Violation("law-partition:"+shape, fmt.Sprintf("Only(%s) [%d] and Only(%s) [%d] do not partition %s [%d] in order", cnd.q, len(pl), neg.q, len(nl), e.q, len(all)), payload)
						}
					}
				}
			}
		}
		if c.WantSample(shape) {
			c.Sample(shape, map[string]interface{}{"query": e.q, "result": c16JSON(got)})
		}
	}
}
