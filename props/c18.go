package props

import (
	"bytes"
	"fmt"
	"regexp"
	"sort"
	"strings"

	"github.com/elliotchance/gedcom/v39"
	"github.com/elliotchance/gedcom/v39/html"
	"github.com/elliotchance/gedcom/v39/q"
	xhtml "golang.org/x/net/html"

	"verif/fw"
	"verif/gen"
)

// C18 — file content can never change the structure of a published page.
// Oracle: taint tokens + structural differential against a benign twin.

type c18Tainter struct {
	n      int
	benign bool
	kinds  map[int]string // token number -> value kind
	style  int
}

// val returns a value carrying a fresh taint token. The unique alphanumeric
// prefix comes first and the string has no '/' or ',' so that sorting, surname
// grouping, name splitting and place splitting are identical in the twin.
func (t *c18Tainter) val(kind string) string {
	t.n++
	t.kinds[t.n] = kind
	k := t.n
	var s string
	switch (t.style + k) % 3 {
	case 0:
		s = fmt.Sprintf(`zq%04d<zqe%04d zqa%04d=1>"zqb%04d='zqc%04d&zqd%04d`, k, k, k, k, k, k)
	case 1:
		s = fmt.Sprintf(`zq%04d"zqb%04d='zqc%04d><zqe%04d zqa%04d=2>&zqd%04d</td></tr>`, k, k, k, k, k, k)
	default:
		s = fmt.Sprintf(`zq%04d'zqc%04d onmouseover=zqa%04d "zqb%04d <script>zqe%04d</script> &zqd%04d`, k, k, k, k, k, k)
	}
	// a real character reference next to the markup: text that "already looks
	// escaped" must still be escaped
	switch k % 5 {
	case 1:
		s += " &amp; &#39;"
	case 2:
		s += " &eacute;&lt;"
	}
	// some values are long: components may treat long text differently (cut
	// it, move it into a title attribute, wrap it). The padding is plain words
	// after the attack string, identical in the twin.
	switch k % 7 {
	case 3:
		s += " " + strings.Repeat("lorem ipsum dolor ", 5) + "end"
	case 5:
		s += " " + strings.Repeat("sit amet consectetur ", 16) + "end"
	}
	// files in Latin-1 / ANSEL have bytes that are not valid UTF-8 (the decoder
	// keeps them): a stray byte, or a cut-off multi-byte sequence, directly in
	// front of every markup character
	switch k % 9 {
	case 4:
		s = strings.NewReplacer("<", "\xe9<", `"`, "\xe9\"", "'", "\xe9'", "&", "\xe9&", ">", "\xe9>").Replace(s)
	case 8:
		s = strings.NewReplacer("<", "\xe2\x82<", `"`, "\xc3\"", "'", "\xf0\x9f'", "&", "\xe9x&", ">", "\xe9y>").Replace(s)
	}
	// a combining mark as the very first character of the value (it follows
	// whatever the page puts in front of the value)
	switch k % 13 {
	case 6:
		s = "\u0338" + s
	case 11:
		s = []string{"\u0301", "\u20d2", "\u0338\u0338", "\ufe0f", "\u200d"}[k%5] + s
	}
	if t.benign {
		// punctuation that no HTML context cares about, but that every string
		// routine of the library (name cleaning, file keys, sorting) treats like
		// the metacharacter it replaces: only escaping can make the pages differ
		// The replacement is also order-isomorphic in ASCII with respect to every other
		// character used in the values (space < " < & < ' < digits < '<' < '=' < '>' < letters),
		// so that sorting by name gives the same order in both documents.
		s = strings.NewReplacer(`"`, "!", "&", "%", "'", "(", "<", ";", ">", "?", "/", "S").Replace(s)
	} else {
		s = strings.ReplaceAll(s, "/", "S") // '/' would split names; keep the twin aligned
	}
	return s
}

// c18Doc builds the tainted (or twin) document text. Structure is a function
// of (r seed) only; values come from the tainter in a fixed order.
func c18Doc(seed uint64, benign bool) (string, *c18Tainter) {
	r := fw.NewRand(seed)
	t := &c18Tainter{benign: benign, kinds: map[int]string{}, style: int(seed % 3)}
	// anything from "everybody died long ago" to "everybody is alive": the hide
	// and placeholder modes leave rows, cells and whole groups out
	people := r.Range(2, 9)
	if seed%10 == 3 {
		// dozens of different surnames under one letter, dozens of places:
		// components may switch to another rendering for long lists
		people = r.Range(28, 40)
	}
	g := gen.NewFG(r, gen.FGOpts{People: people, ExactDates: true, NoLiving: false, StartYear: []int{1800, 1800, 1900, 1940, 1970, 1995}[r.Intn(6)]})
	g.Head = true
	ptrs := map[string]string{}
	for _, p := range g.People {
		p.Given = t.val("given-name")
		p.Surname = t.val("surname")
		if r.Chance(1, 2) {
			p.Names = []string{t.val("alternative-given") + " /" + t.val("alternative-surname") + "/"}
		}
		p.NameSub = []*gen.Spec{{Tag: "GIVN", Value: t.val("GIVN")}, {Tag: "SURN", Value: t.val("SURN")}}
		if r.Chance(1, 2) {
			p.NameSub = append(p.NameSub, &gen.Spec{Tag: "NPFX", Value: t.val("NPFX")}, &gen.Spec{Tag: "NSFX", Value: t.val("NSFX")}, &gen.Spec{Tag: "NICK", Value: t.val("NICK")}, &gen.Spec{Tag: "SPFX", Value: t.val("SPFX")}, &gen.Spec{Tag: "TITL", Value: t.val("name-title")})
		}
		for _, e := range p.Events {
			e.Place = t.val("place")
			if r.Chance(1, 4) {
				e.Text = "(" + t.val("date-phrase") + ")"
			} else if r.Chance(1, 6) {
				e.Text = t.val("unparsable-date")
			}
			// every other line the standard allows below an event: a page may
			// show any of them next to the date and the place
			if r.Chance(1, 2) {
				e.Extra = append(e.Extra, &gen.Spec{Tag: "AGE", Value: t.val("event-detail")}, &gen.Spec{Tag: "CAUS", Value: t.val("event-detail")}, &gen.Spec{Tag: "TYPE", Value: t.val("type")},
					&gen.Spec{Tag: "AGNC", Value: t.val("event-detail")}, &gen.Spec{Tag: "RELI", Value: t.val("event-detail")}, &gen.Spec{Tag: "NOTE", Value: t.val("note")},
					&gen.Spec{Tag: "ADDR", Value: t.val("event-detail"), Kids: []*gen.Spec{{Tag: "CITY", Value: t.val("event-detail")}, {Tag: "CTRY", Value: t.val("event-detail")}}},
					&gen.Spec{Tag: "SOUR", Value: "@S2@", Kids: []*gen.Spec{{Tag: "PAGE", Value: t.val("source-citation")}, {Tag: "QUAY", Value: t.val("event-detail")}}},
					&gen.Spec{Tag: "OBJE", Kids: []*gen.Spec{{Tag: "FILE", Value: t.val("event-detail")}, {Tag: "TITL", Value: t.val("event-detail")}}},
					&gen.Spec{Tag: "_PRIM", Value: t.val("custom-tag-value")})
			}
		}
		p.Extra = append(p.Extra,
			&gen.Spec{Tag: "NOTE", Value: t.val("note")},
			&gen.Spec{Tag: "OCCU", Value: t.val("event-value"), Kids: []*gen.Spec{{Tag: "DATE", Value: "1900"}, {Tag: "PLAC", Value: t.val("place")}, {Tag: "TYPE", Value: t.val("type")}}},
			&gen.Spec{Tag: "EVEN", Value: t.val("event-value"), Kids: []*gen.Spec{{Tag: "TYPE", Value: t.val("type")}, {Tag: "NOTE", Value: t.val("note")}}},
			&gen.Spec{Tag: "SOUR", Value: "@S1@", Kids: []*gen.Spec{{Tag: "PAGE", Value: t.val("source-citation")}}},
			&gen.Spec{Tag: "_CUSTOM", Value: t.val("custom-tag-value")},
		)
		if r.Chance(1, 3) {
			p.Sex = t.val("sex")
		}
		if r.Chance(1, 6) {
			p.NoName = true // nameless people are shown by other means (pointer, "Unknown")
		}
		if p.NoName || r.Chance(1, 3) {
			np := t.val("individual-pointer")
			np = strings.ReplaceAll(np, "@", "a")
			ptrs[p.Ptr] = np
		}
	}
	for _, p := range g.People {
		if np, ok := ptrs[p.Ptr]; ok {
			p.Ptr = np
		}
	}
	for _, f := range g.Families {
		for _, e := range f.Events {
			e.Place = t.val("place")
			if r.Chance(1, 3) {
				e.Text = t.val("unparsable-date")
			}
			if r.Chance(1, 2) {
				e.Extra = append(e.Extra, &gen.Spec{Tag: "TYPE", Value: t.val("type")}, &gen.Spec{Tag: "NOTE", Value: t.val("note")}, &gen.Spec{Tag: "AGNC", Value: t.val("event-detail")},
					&gen.Spec{Tag: "HUSB", Kids: []*gen.Spec{{Tag: "AGE", Value: t.val("event-detail")}}}, &gen.Spec{Tag: "WIFE", Kids: []*gen.Spec{{Tag: "AGE", Value: t.val("event-detail")}}})
			}
		}
		f.Extra = append(f.Extra, &gen.Spec{Tag: "NOTE", Value: t.val("note")})
	}
	g.Sources = []*gen.Source{
		{Ptr: "S1", Title: t.val("source-title"), Extra: []*gen.Spec{{Tag: "AUTH", Value: t.val("source-property")}, {Tag: "PUBL", Value: t.val("source-property")}, {Tag: "_ODD", Value: t.val("source-property"), Kids: []*gen.Spec{{Tag: "NOTE", Value: t.val("source-property")}}}, {Tag: "TEXT", Value: t.val("source-property")},
			{Tag: "WWW", Value: "javascript:" + t.val("source-address")}, {Tag: "FILE", Value: "data:text/html," + t.val("source-address")}, {Tag: "URL", Value: " JavaScript:" + t.val("source-address")}, {Tag: "_URL", Value: "vbscript:" + t.val("source-address")}, {Tag: "_LINK", Value: "https://example.invalid/" + t.val("source-address")},
			{Tag: "OBJE", Kids: []*gen.Spec{{Tag: "FILE", Value: "javascript:" + t.val("source-address")}, {Tag: "FORM", Value: t.val("source-property")}}}}},
		{Ptr: "S2", Title: t.val("source-title")},
		{Ptr: "S3"},
	}
	return g.Text(), t
}

// c18Structure tokenises a page: the sequence of (type, tag, sorted attribute
// names), the elements/attributes named after taint tokens, and nesting errors.
var c18PlainHandler = regexp.MustCompile(`^\s*location\.href='[^'\\\r\n]*'\s*;?\s*$`)

func c18Structure(body []byte) (seq []string, injected []string, nesting string) {
	seq, injected, nesting, _ = c18StructureOff(body)
	return
}

func c18StructureOff(body []byte) (seq []string, injected []string, nesting string, offs []int) {
	pos := 0
	z := xhtml.NewTokenizer(bytes.NewReader(body))
	void := map[string]bool{"meta": true, "link": true, "br": true, "hr": true, "img": true, "input": true, "area": true, "base": true, "col": true, "embed": true, "source": true, "track": true, "wbr": true}
	var stack []string
	for {
		tt := z.Next()
		if tt == xhtml.ErrorToken {
			break
		}
		start := pos
		pos += len(z.Raw())
		before := len(seq)
		defer func() {}()
		switch tt {
		case xhtml.StartTagToken, xhtml.SelfClosingTagToken, xhtml.EndTagToken:
			t := z.Token()
			var attrs []string
			for _, a := range t.Attr {
				attrs = append(attrs, a.Key)
				lk := strings.ToLower(a.Key)
				if strings.HasPrefix(lk, "zq") {
					injected = append(injected, "attribute "+a.Key+" on <"+t.Data+">")
				}
				// a link, form or media target whose scheme comes from the file and runs script
				if lk == "href" || lk == "src" || lk == "action" || lk == "formaction" || lk == "data" || lk == "xlink:href" {
					v := strings.ToLower(strings.TrimLeft(a.Val, " \t\r\n\x00"))
					if strings.Contains(a.Val, "zq") && (strings.HasPrefix(v, "javascript:") || strings.HasPrefix(v, "vbscript:") || strings.HasPrefix(v, "data:")) {
						injected = append(injected, "script-scheme target "+a.Key+" on <"+t.Data+">")
					}
				}
				// an event handler is script: a value from the file may only be
				// there inside the one string literal of location.href='...', and
				// that literal must run to the end of the handler (a quote, a
				// backslash or a line break from the file would end or bend it)
				if strings.HasPrefix(lk, "on") && strings.Contains(strings.ToLower(a.Val), "zq") && !c18PlainHandler.MatchString(a.Val) {
					injected = append(injected, "event handler "+a.Key+" in which a value from the file is not confined to the string of location.href='...'")
				}
			}
			sort.Strings(attrs)
			if strings.HasPrefix(strings.ToLower(t.Data), "zq") {
				top := "document"
				if len(stack) > 0 {
					top = stack[len(stack)-1]
				}
				injected = append(injected, "element <"+t.Data+"> inside <"+top+">")
			}
			kind := map[xhtml.TokenType]string{xhtml.StartTagToken: "S", xhtml.SelfClosingTagToken: "V", xhtml.EndTagToken: "E"}[tt]
			seq = append(seq, kind+":"+t.Data+"["+strings.Join(attrs, ",")+"]")
			switch tt {
			case xhtml.StartTagToken:
				if !void[t.Data] {
					stack = append(stack, t.Data)
				}
				if t.Data == "script" && strings.Contains(string(z.Raw()), "zq") {
					injected = append(injected, "script element")
				}
			case xhtml.EndTagToken:
				if void[t.Data] {
					break
				}
				if len(stack) == 0 || stack[len(stack)-1] != t.Data {
					if nesting == "" {
						top := "(nothing open)"
						if len(stack) > 0 {
							top = stack[len(stack)-1]
						}
						nesting = fmt.Sprintf("</%s> closes while <%s> is open", t.Data, top)
					}
					// resynchronise
					for k := len(stack) - 1; k >= 0; k-- {
						if stack[k] == t.Data {
							stack = stack[:k]
							break
						}
					}
				} else {
					stack = stack[:len(stack)-1]
				}
			}
		case xhtml.TextToken:
			if len(seq) == 0 || seq[len(seq)-1] != "T" {
				if len(bytes.TrimSpace(z.Raw())) > 0 {
					seq = append(seq, "T")
				}
			}
		case xhtml.CommentToken:
			seq = append(seq, "C")
		}
		for len(offs) < len(seq) {
			offs = append(offs, start)
		}
		_ = before
	}
	if nesting == "" && len(stack) > 0 {
		nesting = fmt.Sprintf("<%s> is never closed", stack[len(stack)-1])
	}
	return
}

func c18N(tier string) int {
	if tier == "thorough" {
		return 4000
	}
	return 180
}

func init() {
	fw.Register(&fw.Prop{
		ID:    "C18",
		Title: "File content can never change the structure of a published page",
		Cases: func(tier string, seed uint64) int { return c18N(tier) },
		Run:   c18Run,
		Batch: func(tier string, n int) int { return 2 },
		Rule: "documents in which every value (given names, surnames, alternative names, GIVN/SURN/NPFX/NSFX/NICK/SPFX/name title, places, date phrases and unparsable dates, notes, event values, TYPE, source titles, source properties at two levels, citations, SEX, custom tags, individual pointers - also of individuals without a name) carries a unique taint token inside one of three attack strings (two in seven padded to about 130 and 380 bytes) with < > \" ' & ; each document is rendered twice: tainted and as a benign twin whose metacharacters are replaced by HTML-neutral punctuation ! % ( ; ? chosen order-isomorphic in ASCII. " +
			"pages: every page of the published site in all three visibility modes, html.DiffPage of two documents (both sort modes, HideEqual on/off), q.HTMLFormatter on 12 queries, Warnings.WriteHTMLTo. monitors (HTML5 tokenizer golang.org/x/net/html): token sequence (type, tag, sorted attribute names) identical to the twin page; no element or attribute named after a taint token, no tainted <script>, no tainted event handler with a quote, no link/media target whose script scheme (javascript:, vbscript:, data:) comes from a value; well-nested with a tag stack. non-trivial = tainted page containing at least one taint token; distinct by page bytes",
		Floors: func(a *fw.Agg, tier string) []string {
			var f []string
			for _, k := range []string{"pages-compared", "diff-pages", "query-pages", "warning-pages", "taint-tokens-reaching-a-page"} {
				if a.Counters[k] < 20 {
					f = append(f, fmt.Sprintf("%s=%d < 20", k, a.Counters[k]))
				}
			}
			for _, k := range []string{"given-name", "surname", "place", "note", "source-title", "source-property", "date-phrase", "event-value", "individual-pointer"} {
				if a.Class("reached", k) == 0 {
					f = append(f, "no taint token of kind "+k+" reached any page")
				}
			}
			return f
		},
		Assumptions: []string{
			"XML-style self-closing (<a name=\"x\"/>, <br/>) is read as the templates intend; escaping of ' inside double-quoted attributes and of & is not demanded (neither changes the structure)",
			"pages are paired with their twin by position in the sorted file list (file keys start with the unique token prefix)",
		},
	})
}

// c18Compare checks one tainted page against its twin.
func c18Compare(c *fw.Ctx, what, name string, tainted, twin []byte, tn *c18Tainter, payload interface{}) {
	c.Count("pages-compared", 1)
	if bytes.Contains(tainted, []byte("zq")) {
		c.NontrivialStr(string(tainted))
	}
	seq, injected, nesting, offs := c18StructureOff(tainted)
	seq2, _, nesting2, offs2 := c18StructureOff(twin)
	sink := func(at int) string {
		// the enclosing tag of the first structural difference
		for k := at; k >= 0 && k < len(seq); k-- {
			if strings.HasPrefix(seq[k], "S:") || strings.HasPrefix(seq[k], "V:") {
				return seq[k][2:]
			}
		}
		return "?"
	}
	kindOf := func(fragment string) string {
		// which taint token is nearest
		best := ""
		for n, k := range tn.kinds {
			if strings.Contains(fragment, fmt.Sprintf("zq%04d", n)) || strings.Contains(fragment, fmt.Sprintf("zqe%04d", n)) || strings.Contains(fragment, fmt.Sprintf("zqa%04d", n)) || strings.Contains(fragment, fmt.Sprintf("zqb%04d", n)) || strings.Contains(fragment, fmt.Sprintf("zqc%04d", n)) {
				if best == "" || k < best {
					best = k
				}
			}
		}
		if best == "" {
			return "unknown-value"
		}
		return best
	}
	if len(injected) > 0 {
		sort.SliceStable(injected, func(a, b int) bool {
			return strings.HasPrefix(injected[a], "element ") && !strings.HasPrefix(injected[b], "element ")
		})
		inj := injected[0]
		frag := inj
		if i := bytes.Index(tainted, []byte("<zqe")); i >= 0 {
			frag = string(tainted[maxInt0(i-150):minInt(i+100, len(tainted))])
		} else if i := strings.Index(inj, "zq"); i >= 0 {
			tok := strings.FieldsFunc(inj[i:], func(r rune) bool { return !(r >= '0' && r <= '9' || r >= 'a' && r <= 'z') })[0]
			if j := bytes.Index(tainted, []byte(tok)); j >= 0 {
				frag = string(tainted[maxInt0(j-150):minInt(j+100, len(tainted))])
			}
		}
		sinkName := "?"
		switch {
		case strings.HasPrefix(inj, "attribute "):
			sinkName = inj[strings.LastIndex(inj, "<"):] + "@attribute-value"
		case strings.HasPrefix(inj, "element "):
			sinkName = "content-of-" + inj[strings.LastIndex(inj, "<"):]
		default:
			sinkName = strings.Fields(inj)[0]
		}
		_ = kindOf
		sinkName = c18TokenNumber.ReplaceAllString(sinkName, "${1}N")
		c.Violation("injected:"+what+":"+sinkName, fmt.Sprintf("%s %s: a value from the file created %s\n...%s...", what, name, inj, frag), payload)
		return
	}
	for k := 0; k < len(seq) || k < len(seq2); k++ {
		var a, b string
		if k < len(seq) {
			a = seq[k]
		}
		if k < len(seq2) {
			b = seq2[k]
		}
		if a != b {
			ra, rb := "", ""
			if k < len(offs) {
				ra = string(tainted[maxInt0(offs[k]-200):minInt(offs[k]+120, len(tainted))])
			}
			if k < len(offs2) {
				rb = string(twin[maxInt0(offs2[k]-200):minInt(offs2[k]+120, len(twin))])
			}
			c.Violation("structure-differs:"+what+":"+sink(k-1), fmt.Sprintf("%s %s: the tag structure depends on the bytes of a value: token %d is %q but %q in the benign twin (after %v)\ntainted: ...%s...\ntwin:    ...%s...", what, name, k, a, b, seq[maxInt0(k-4):minInt(k, len(seq))], ra, rb), payload)
			return
		}
	}
	if nesting != "" {
		sig := "not-well-nested:" + what
		if nesting2 != "" {
			sig = "not-well-nested-even-when-benign:" + what
		}
		c.Violation(sig, fmt.Sprintf("%s %s is not well-nested: %s (benign twin: %q)", what, name, nesting, nesting2), payload)
	}
}

var c18TokenNumber = regexp.MustCompile(`(zq[a-e]?)\d+`)

func maxInt0(a int) int {
	if a < 0 {
		return 0
	}
	return a
}

func c18Run(c *fw.Ctx, i int) {
	seed := fw.Mix(c.Seed, 1818, uint64(i))
	tainted, tn := c18Doc(seed, false)
	twin, _ := c18Doc(seed, true)
	payload := map[string]interface{}{"gedcom": tainted}
	if _, err := gedcom.NewDocumentFromString(tainted); err != nil {
		c.HarnessError("C18 tainted document does not decode: " + err.Error())
		return
	}
	reached := map[int]bool{}
	note := func(body []byte) {
		for n := range tn.kinds {
			if !reached[n] && bytes.Contains(body, []byte(fmt.Sprintf("zq%04d", n))) {
				// make sure it is this token and not a longer number
				reached[n] = true
			}
		}
	}
	// ---- the published site ----
	for _, vis := range []html.LivingVisibility{html.LivingVisibilityShow, html.LivingVisibilityHide, html.LivingVisibilityPlaceholder} {
		a, e1 := publish(tainted, allGroups(vis), 1, 0)
		b, e2 := publish(twin, allGroups(vis), 1, 0)
		if e1 != nil || e2 != nil || a.Err != nil || b.Err != nil {
			c.Violation("publish-failed", fmt.Sprintf("publishing failed: %v %v %v %v", e1, e2, a.Err, b.Err), payload)
			continue
		}
		an, bn := a.names(), b.names()
		if len(an) != len(bn) {
			c.Violation("file-count-depends-on-bytes:"+string(vis), fmt.Sprintf("the tainted document publishes %d files, its benign twin %d\n%v\n%v", len(an), len(bn), an, bn), payload)
			continue
		}
		for k := range an {
			note(a.Files[an[k]])
			c18Compare(c, "page["+string(vis)+"]", an[k], a.Files[an[k]], b.Files[bn[k]], tn, payload)
		}
	}
	// ---- diff page ----
	otherSeed := fw.Mix(seed, 7)
	tainted2, _ := c18Doc(otherSeed, false)
	twin2, _ := c18Doc(otherSeed, true)
	for _, srt := range []string{html.DiffPageSortWrittenName, html.DiffPageSortHighestSimilarity} {
		for _, hide := range []bool{false, true} {
			render := func(l, r string) []byte {
				ld, _ := gedcom.NewDocumentFromString(l)
				rd, _ := gedcom.NewDocumentFromString(r)
				o := gedcom.NewIndividualNodesCompareOptions()
				comps := ld.Individuals().Compare(rd.Individuals(), o)
				progress := make(chan gedcom.Progress, 100000)
				ff := &gedcom.FilterFlags{HideEqual: hide}
				page := html.NewDiffPage(comps, ff, "", html.DiffPageShowAll, srt, progress, o, html.LivingVisibilityShow)
				var buf bytes.Buffer
				page.WriteHTMLTo(&buf)
				return buf.Bytes()
			}
			var ta, tw []byte
			if pi := fw.Try(func() { ta = render(tainted, tainted2); tw = render(twin, twin2) }); pi != nil {
				c.Violation("diff-page-panics:"+pi.Class, "rendering the diff page panicked: "+pi.Msg, payload)
				continue
			}
			c.Count("diff-pages", 1)
			note(ta)
			c18Compare(c, "diff-page", fmt.Sprintf("sort=%s hide-equal=%v", srt, hide), ta, tw, tn, payload)
		}
	}
	// ---- query results in HTML format ----
	queries := []string{".Individuals", ".Individuals | .Name | .String", ".Individuals | { name: .Name | .String, born: .Birth | .String }", ".Families", ".Sources", ".Individuals | .Name", ".Individuals | First(2)", ".Warnings", ".Individuals | .AllEvents", ".Individuals | NodesWithTagPath(\"NOTE\") | .Value", ".Sources | .Title", ".Individuals | .Pointer"}
	for _, qs := range queries {
		render := func(text string) ([]byte, error) {
			d, _ := gedcom.NewDocumentFromString(text)
			e, err := q.NewParser().ParseString(qs)
			if err != nil {
				return nil, err
			}
			res, err := e.Evaluate([]*gedcom.Document{d})
			if err != nil {
				return nil, err
			}
			var buf bytes.Buffer
			err = (&q.HTMLFormatter{Writer: &buf}).Write(res)
			return buf.Bytes(), err
		}
		ta, e1 := render(tainted)
		tw, e2 := render(twin)
		if e1 != nil || e2 != nil {
			continue
		}
		c.Count("query-pages", 1)
		note(ta)
		c18Compare(c, "query-html", qs, ta, tw, tn, payload)
	}
	// ---- warnings table ----
	{
		render := func(text string) []byte {
			d, _ := gedcom.NewDocumentFromString(text)
			var buf bytes.Buffer
			d.Warnings().WriteHTMLTo(&buf)
			return buf.Bytes()
		}
		ta, tw := render(tainted), render(twin)
		c.Count("warning-pages", 1)
		note(ta)
		c18Compare(c, "warnings-html", "Warnings.WriteHTMLTo", ta, tw, tn, payload)
	}
	for n := range reached {
		c.Count("taint-tokens-reaching-a-page", 1)
		c.Class("reached", tn.kinds[n])
	}
	for n, k := range tn.kinds {
		if !reached[n] {
			c.Class("never-reached", k)
		}
	}
	if c.WantSample("document") {
		c.Sample("document", map[string]interface{}{"taint_tokens": len(tn.kinds), "reached_a_page": len(reached), "example_value": tn.val("example"), "gedcom": clip(tainted, 400)})
	}
}
