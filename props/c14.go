package props

import (
	"bytes"
	"fmt"
	"os"
	"path/filepath"
	"strings"
	"time"

	"github.com/elliotchance/gedcom/v39"
	"github.com/elliotchance/gedcom/v39/html"
	"github.com/elliotchance/gedcom/v39/html/core"
	"github.com/elliotchance/gedcom/v39/q"

	"verif/fw"
	"verif/gen"
)

// C14 — no command crashes on a file the decoder accepts.

type c14Fault struct {
	name  string
	apply func(r *fw.Rand, recs []*gen.Spec) []*gen.Spec
}

func c14Records(recs []*gen.Spec, tag string) []*gen.Spec {
	var o []*gen.Spec
	for _, s := range recs {
		if s.Tag == tag {
			o = append(o, s)
		}
	}
	return o
}

func c14Kids(s *gen.Spec, tags ...string) []*gen.Spec {
	var o []*gen.Spec
	for _, k := range s.Kids {
		for _, t := range tags {
			if k.Tag == t {
				o = append(o, k)
			}
		}
	}
	return o
}

func c14Pick(r *fw.Rand, l []*gen.Spec) *gen.Spec {
	if len(l) == 0 {
		return nil
	}
	return l[r.Intn(len(l))]
}

// refs returns all reference lines (HUSB/WIFE/CHIL in families, FAMS/FAMC in individuals)
func c14Refs(recs []*gen.Spec) []*gen.Spec {
	var o []*gen.Spec
	for _, f := range c14Records(recs, "FAM") {
		o = append(o, c14Kids(f, "HUSB", "WIFE", "CHIL")...)
	}
	for _, i := range c14Records(recs, "INDI") {
		o = append(o, c14Kids(i, "FAMS", "FAMC")...)
	}
	return o
}

func c14InsertBeforeTRLR(recs []*gen.Spec, add ...*gen.Spec) []*gen.Spec {
	if n := len(recs); n > 0 && recs[n-1].Tag == "TRLR" {
		return append(append(append([]*gen.Spec{}, recs[:n-1]...), add...), recs[n-1])
	}
	return append(recs, add...)
}

func c14SetName(r *fw.Rand, recs []*gen.Spec, v string) []*gen.Spec {
	if i := c14Pick(r, c14Records(recs, "INDI")); i != nil {
		if ns := c14Kids(i, "NAME"); len(ns) > 0 {
			ns[0].Value = v
		} else {
			i.Kids = append([]*gen.Spec{{Tag: "NAME", Value: v}}, i.Kids...)
		}
	}
	return recs
}

func c14SetDate(r *fw.Rand, recs []*gen.Spec, v string) []*gen.Spec {
	var dates []*gen.Spec
	var walk func(s *gen.Spec)
	walk = func(s *gen.Spec) {
		if s.Tag == "DATE" {
			dates = append(dates, s)
		}
		for _, k := range s.Kids {
			walk(k)
		}
	}
	for _, s := range recs {
		if s.Tag == "INDI" || s.Tag == "FAM" {
			walk(s)
		}
	}
	if d := c14Pick(r, dates); d != nil {
		d.Value = v
	} else if i := c14Pick(r, c14Records(recs, "INDI")); i != nil {
		i.Kids = append(i.Kids, &gen.Spec{Tag: "BIRT", Kids: []*gen.Spec{{Tag: "DATE", Value: v}}})
	}
	return recs
}

var c14Faults = []c14Fault{
	{"ref-to-missing-record", func(r *fw.Rand, recs []*gen.Spec) []*gen.Spec {
		if x := c14Pick(r, c14Refs(recs)); x != nil {
			x.Value = "@NOPE@"
		} else {
			recs = c14InsertBeforeTRLR(recs, &gen.Spec{Tag: "FAM", Pointer: "FX", Kids: []*gen.Spec{{Tag: "HUSB", Value: "@NOPE@"}, {Tag: "CHIL", Value: "@NOPE2@"}}})
		}
		return recs
	}},
	{"ref-to-wrong-kind", func(r *fw.Rand, recs []*gen.Spec) []*gen.Spec {
		fams, inds := c14Records(recs, "FAM"), c14Records(recs, "INDI")
		if x := c14Pick(r, c14Refs(recs)); x != nil && len(fams) > 0 && len(inds) > 0 {
			if x.Tag == "FAMS" || x.Tag == "FAMC" {
				x.Value = "@" + inds[0].Pointer + "@"
			} else {
				x.Value = "@" + fams[0].Pointer + "@"
			}
		} else {
			recs = c14InsertBeforeTRLR(recs, &gen.Spec{Tag: "SOUR", Pointer: "SW"}, &gen.Spec{Tag: "FAM", Pointer: "FW", Kids: []*gen.Spec{{Tag: "WIFE", Value: "@SW@"}, {Tag: "CHIL", Value: "@FW@"}}})
		}
		return recs
	}},
	{"empty-ref-value", func(r *fw.Rand, recs []*gen.Spec) []*gen.Spec {
		if x := c14Pick(r, c14Refs(recs)); x != nil {
			x.Value = ""
		} else {
			recs = c14InsertBeforeTRLR(recs, &gen.Spec{Tag: "FAM", Pointer: "FE", Kids: []*gen.Spec{{Tag: "HUSB"}, {Tag: "WIFE"}, {Tag: "CHIL"}}})
		}
		return recs
	}},
	{"ref-value-without-at", func(r *fw.Rand, recs []*gen.Spec) []*gen.Spec {
		if x := c14Pick(r, c14Refs(recs)); x != nil {
			x.Value = strings.Trim(x.Value, "@")
			if x.Value == "" {
				x.Value = "I1"
			}
			if r.Bool() {
				x.Value = "@"
			}
		}
		return recs
	}},
	{"individual-without-name", func(r *fw.Rand, recs []*gen.Spec) []*gen.Spec {
		if i := c14Pick(r, c14Records(recs, "INDI")); i != nil {
			var ks []*gen.Spec
			for _, k := range i.Kids {
				if k.Tag != "NAME" {
					ks = append(ks, k)
				}
			}
			i.Kids = ks
		} else {
			recs = c14InsertBeforeTRLR(recs, &gen.Spec{Tag: "INDI", Pointer: "IN"})
		}
		return recs
	}},
	{"empty-name", func(r *fw.Rand, recs []*gen.Spec) []*gen.Spec {
		return c14SetName(r, recs, []string{"", "//", "/", " / / "}[r.Intn(3)])
	}},
	{"name-without-surname", func(r *fw.Rand, recs []*gen.Spec) []*gen.Spec { return c14SetName(r, recs, "Madonna") }},
	{"surname-starts-with-digit", func(r *fw.Rand, recs []*gen.Spec) []*gen.Spec { return c14SetName(r, recs, "John /9lives/") }},
	{"surname-starts-with-symbol", func(r *fw.Rand, recs []*gen.Spec) []*gen.Spec {
		return c14SetName(r, recs, []string{"John /(unknown)/", "John /-/", "John /?/", "A /'t Hart/", "B /<b>/"}[r.Intn(5)])
	}},
	{"surname-starts-with-multibyte", func(r *fw.Rand, recs []*gen.Spec) []*gen.Spec {
		return c14SetName(r, recs, []string{"Jens /Østergaard/", "李 /小龍/", "A /Émile/", "B /\xff\xfe/"}[r.Intn(4)])
	}},
	{"own-parent", func(r *fw.Rand, recs []*gen.Spec) []*gen.Spec {
		if f := c14Pick(r, c14Records(recs, "FAM")); f != nil {
			if hs := c14Kids(f, "HUSB", "WIFE"); len(hs) > 0 {
				f.Kids = append(f.Kids, &gen.Spec{Tag: "CHIL", Value: hs[0].Value})
				for _, i := range c14Records(recs, "INDI") {
					if "@"+i.Pointer+"@" == hs[0].Value {
						i.Kids = append(i.Kids, &gen.Spec{Tag: "FAMC", Value: "@" + f.Pointer + "@"})
					}
				}
			}
		}
		return recs
	}},
	{"own-spouse", func(r *fw.Rand, recs []*gen.Spec) []*gen.Spec {
		if f := c14Pick(r, c14Records(recs, "FAM")); f != nil {
			if hs := c14Kids(f, "HUSB"); len(hs) > 0 {
				if ws := c14Kids(f, "WIFE"); len(ws) > 0 {
					ws[0].Value = hs[0].Value
				} else {
					f.Kids = append(f.Kids, &gen.Spec{Tag: "WIFE", Value: hs[0].Value})
				}
			}
		}
		return recs
	}},
	{"cyclic-ancestry", func(r *fw.Rand, recs []*gen.Spec) []*gen.Spec {
		return c14InsertBeforeTRLR(recs,
			&gen.Spec{Tag: "INDI", Pointer: "CY1", Kids: []*gen.Spec{{Tag: "NAME", Value: "Cy /One/"}, {Tag: "SEX", Value: "M"}, {Tag: "BIRT", Kids: []*gen.Spec{{Tag: "DATE", Value: "1 Jan 1800"}}}, {Tag: "DEAT", Kids: []*gen.Spec{{Tag: "DATE", Value: "1 Jan 1860"}}}, {Tag: "FAMS", Value: "@CF1@"}, {Tag: "FAMC", Value: "@CF2@"}}},
			&gen.Spec{Tag: "INDI", Pointer: "CY2", Kids: []*gen.Spec{{Tag: "NAME", Value: "Cy /Two/"}, {Tag: "SEX", Value: "M"}, {Tag: "BIRT", Kids: []*gen.Spec{{Tag: "DATE", Value: "1 Jan 1830"}}}, {Tag: "DEAT", Kids: []*gen.Spec{{Tag: "DATE", Value: "1 Jan 1890"}}}, {Tag: "FAMS", Value: "@CF2@"}, {Tag: "FAMC", Value: "@CF1@"}}},
			&gen.Spec{Tag: "FAM", Pointer: "CF1", Kids: []*gen.Spec{{Tag: "HUSB", Value: "@CY1@"}, {Tag: "CHIL", Value: "@CY2@"}}},
			&gen.Spec{Tag: "FAM", Pointer: "CF2", Kids: []*gen.Spec{{Tag: "HUSB", Value: "@CY2@"}, {Tag: "CHIL", Value: "@CY1@"}}})
	}},
	{"duplicate-pointers", func(r *fw.Rand, recs []*gen.Spec) []*gen.Spec {
		inds, fams := c14Records(recs, "INDI"), c14Records(recs, "FAM")
		switch {
		case len(inds) >= 2 && r.Bool():
			inds[1].Pointer = inds[0].Pointer
		case len(inds) >= 1 && len(fams) >= 1:
			fams[0].Pointer = inds[0].Pointer
		default:
			recs = c14InsertBeforeTRLR(recs, &gen.Spec{Tag: "INDI", Pointer: "D1", Kids: []*gen.Spec{{Tag: "NAME", Value: "Dup /One/"}}}, &gen.Spec{Tag: "INDI", Pointer: "D1", Kids: []*gen.Spec{{Tag: "NAME", Value: "Dup /Two/"}}})
		}
		return recs
	}},
	{"family-without-members", func(r *fw.Rand, recs []*gen.Spec) []*gen.Spec {
		return c14InsertBeforeTRLR(recs, &gen.Spec{Tag: "FAM", Pointer: "FEMPTY"}, &gen.Spec{Tag: "FAM", Pointer: "FM", Kids: []*gen.Spec{{Tag: "MARR", Kids: []*gen.Spec{{Tag: "DATE", Value: "1 Jan 1900"}}}}})
	}},
	{"source-without-title", func(r *fw.Rand, recs []*gen.Spec) []*gen.Spec {
		recs = c14InsertBeforeTRLR(recs, &gen.Spec{Tag: "SOUR", Pointer: "SNT"}, &gen.Spec{Tag: "SOUR", Pointer: "SNT2", Kids: []*gen.Spec{{Tag: "AUTH", Value: "nobody"}, {Tag: "TITL"}}})
		if i := c14Pick(r, c14Records(recs, "INDI")); i != nil {
			i.Kids = append(i.Kids, &gen.Spec{Tag: "SOUR", Value: "@SNT@"})
		}
		return recs
	}},
	{"source-pointer-with-path", func(r *fw.Rand, recs []*gen.Spec) []*gen.Spec {
		p := []string{"../x", "a/b", "S 1", "..", "/etc/x", "a\\b"}[r.Intn(6)]
		return c14InsertBeforeTRLR(recs, &gen.Spec{Tag: "SOUR", Pointer: p, Kids: []*gen.Spec{{Tag: "TITL", Value: "Odd pointer"}}})
	}},
	{"unparsable-date", func(r *fw.Rand, recs []*gen.Spec) []*gen.Spec {
		return c14SetDate(r, recs, []string{"garbage", "sometime in the winter", "31 Feb 1900", "Foo 1900", "??"}[r.Intn(5)])
	}},
	{"empty-or-phrase-date", func(r *fw.Rand, recs []*gen.Spec) []*gen.Spec {
		return c14SetDate(r, recs, []string{"", "(about then)", "()", "(", ")"}[r.Intn(5)])
	}},
	{"odd-valid-date", func(r *fw.Rand, recs []*gen.Spec) []*gen.Spec {
		return c14SetDate(r, recs, []string{"Bet. 1900 and 1800", "1", "9999", "Bef. 1", "Aft. 9999", "Bet. 1 Jan 1 and 31 Dec 9999", "0", "99999", "Abt. Feb 1900"}[r.Intn(9)])
	}},
	{"sex-missing-duplicated-invalid", func(r *fw.Rand, recs []*gen.Spec) []*gen.Spec {
		if i := c14Pick(r, c14Records(recs, "INDI")); i != nil {
			switch r.Intn(3) {
			case 0:
				var ks []*gen.Spec
				for _, k := range i.Kids {
					if k.Tag != "SEX" {
						ks = append(ks, k)
					}
				}
				i.Kids = ks
			case 1:
				i.Kids = append(i.Kids, &gen.Spec{Tag: "SEX", Value: "F"}, &gen.Spec{Tag: "SEX", Value: "M"})
			case 2:
				i.Kids = append([]*gen.Spec{{Tag: "SEX", Value: []string{"X", "", "male", "?"}[r.Intn(4)]}}, i.Kids...)
			}
		}
		return recs
	}},
	{"empty-or-odd-place", func(r *fw.Rand, recs []*gen.Spec) []*gen.Spec {
		v := []string{"", ",,,", ", ", "-", "a,b,c,d,e,f,g", "St. Ives", "St Ives", "places", "/"}[r.Intn(9)]
		if i := c14Pick(r, c14Records(recs, "INDI")); i != nil {
			i.Kids = append(i.Kids, &gen.Spec{Tag: "RESI", Kids: []*gen.Spec{{Tag: "PLAC", Value: v}}}, &gen.Spec{Tag: "BAPM", Kids: []*gen.Spec{{Tag: "PLAC", Value: v}, {Tag: "DATE", Value: "1 Jan 1850"}}})
		}
		return recs
	}},
	{"no-individuals", func(r *fw.Rand, recs []*gen.Spec) []*gen.Spec {
		var o []*gen.Spec
		for _, s := range recs {
			if s.Tag != "INDI" {
				o = append(o, s)
			}
		}
		return o
	}},
	{"living-people", func(r *fw.Rand, recs []*gen.Spec) []*gen.Spec {
		return c14InsertBeforeTRLR(recs, &gen.Spec{Tag: "INDI", Pointer: "LV1", Kids: []*gen.Spec{{Tag: "NAME", Value: "Liv /Ing/"}, {Tag: "BIRT", Kids: []*gen.Spec{{Tag: "DATE", Value: "1 Jan 2005"}, {Tag: "PLAC", Value: "Now, Here"}}}}},
			&gen.Spec{Tag: "INDI", Pointer: "LV2", Kids: []*gen.Spec{{Tag: "NAME", Value: "No /Dates/"}}})
	}},
	{"name-like-a-place-or-page", func(r *fw.Rand, recs []*gen.Spec) []*gen.Spec {
		w := []string{"Lincoln", "Places", "Statistics", "Families", "Sources", "Surnames", "St. Ives", "Index"}[r.Intn(8)]
		inds := c14Records(recs, "INDI")
		if len(inds) == 0 {
			return recs
		}
		a := inds[r.Intn(len(inds))]
		if ns := c14Kids(a, "NAME"); len(ns) > 0 {
			ns[0].Value = "/" + w + "/"
		} else {
			a.Kids = append([]*gen.Spec{{Tag: "NAME", Value: "/" + w + "/"}}, a.Kids...)
		}
		b := inds[r.Intn(len(inds))]
		b.Kids = append(b.Kids, &gen.Spec{Tag: "BIRT", Kids: []*gen.Spec{{Tag: "DATE", Value: "1 Jan 1801"}, {Tag: "PLAC", Value: w}}}, &gen.Spec{Tag: "DEAT", Kids: []*gen.Spec{{Tag: "DATE", Value: "1 Jan 1861"}, {Tag: "PLAC", Value: strings.ToLower(w)}}})
		return recs
	}},
	{"events-without-details", func(r *fw.Rand, recs []*gen.Spec) []*gen.Spec {
		if i := c14Pick(r, c14Records(recs, "INDI")); i != nil {
			i.Kids = append(i.Kids, &gen.Spec{Tag: "BIRT"}, &gen.Spec{Tag: "DEAT", Value: "Y"}, &gen.Spec{Tag: "BURI"}, &gen.Spec{Tag: "EVEN"}, &gen.Spec{Tag: "DATE", Value: "1900"}, &gen.Spec{Tag: "_UID"}, &gen.Spec{Tag: "_UID", Value: "zz"}, &gen.Spec{Tag: "NOTE"}, &gen.Spec{Tag: "NAME"})
		}
		if f := c14Pick(r, c14Records(recs, "FAM")); f != nil {
			f.Kids = append(f.Kids, &gen.Spec{Tag: "MARR"}, &gen.Spec{Tag: "DIV"}, &gen.Spec{Tag: "MARR", Kids: []*gen.Spec{{Tag: "DATE"}}})
		}
		return recs
	}},
	{"other-legal-event-and-attribute-tags", func(r *fw.Rand, recs []*gen.Spec) []*gen.Spec {
		// everything the standard allows under a person or a family besides
		// birth, baptism, death and burial; for one person these are all there is
		indi := []string{"CHR", "CREM", "ADOP", "BARM", "BASM", "BLES", "CHRA", "CONF", "FCOM", "ORDN", "NATU", "EMIG", "IMMI", "CENS", "PROB", "WILL", "GRAD", "RETI", "EVEN",
			"CAST", "DSCR", "EDUC", "IDNO", "NATI", "NCHI", "NMR", "OCCU", "PROP", "RELI", "RESI", "SSN", "TITL", "FACT", "BAPL", "CONL", "ENDL", "SLGC"}
		fam := []string{"ANUL", "CENS", "DIV", "DIVF", "ENGA", "MARB", "MARC", "MARR", "MARL", "MARS", "RESI", "EVEN", "SLGS", "NCHI"}
		ev := func(tag string, k int) *gen.Spec {
			e := &gen.Spec{Tag: tag}
			switch k % 4 {
			case 0:
				e.Kids = []*gen.Spec{{Tag: "DATE", Value: fmt.Sprintf("%d MAR %d", 1+k%28, 1850+k%60)}, {Tag: "PLAC", Value: "Leeds, England"}}
			case 1:
				e.Kids = []*gen.Spec{{Tag: "DATE", Value: fmt.Sprint(1850 + k%60)}}
			case 2:
				e.Value = "Y"
			}
			return e
		}
		inds := c14Records(recs, "INDI")
		for n, i := range inds {
			if n == 0 && r.Bool() {
				// only such events: nothing else says when this person lived
				var ks []*gen.Spec
				for _, k := range i.Kids {
					if k.Tag != "BIRT" && k.Tag != "BAPM" && k.Tag != "DEAT" && k.Tag != "BURI" {
						ks = append(ks, k)
					}
				}
				i.Kids = ks
			}
			for k := r.Range(1, 4); k > 0; k-- {
				q := r.Intn(len(indi))
				if r.Chance(1, 3) {
					q = 0 // christenings are what most parish registers record
				}
				i.Kids = append(i.Kids, ev(indi[q], r.Intn(1000)))
			}
		}
		for _, f := range c14Records(recs, "FAM") {
			for k := r.Range(0, 3); k > 0; k-- {
				f.Kids = append(f.Kids, ev(fam[r.Intn(len(fam))], r.Intn(1000)))
			}
		}
		return recs
	}},
	{"long-values-without-spaces", func(r *fw.Rand, recs []*gen.Spec) []*gen.Spec {
		// what Ancestry, FamilySearch or Find a Grave write: long addresses,
		// paths and identifiers; text in languages written without spaces
		long := []string{
			"https://www.example.invalid/search/collections/1234/records/567890123?tid=&pid=&queryId=0123456789abcdef0123456789abcdef&_phsrc=abc123&_phstart=successSource",
			"C:\\Users\\Genealogy\\Documents\\FamilyTree\\Media\\Scans\\Census\\1881\\Yorkshire\\Leeds\\RG11_4521_0034_household_schedule_117.jpg",
			strings.Repeat("QUJDREVGR0hJSktMTU5PUFFSU1RVVldYWVo", 8),
			strings.Repeat("家族の歴史と系図の記録", 6),
			strings.Repeat("ประวัติครอบครัว", 8),
			strings.Repeat("x", 81), strings.Repeat("y", 80) + " z", strings.Repeat("é", 41), strings.Repeat("-", 200),
		}
		for _, i := range c14Records(recs, "INDI") {
			if !r.Chance(2, 3) {
				continue
			}
			v := long[r.Intn(len(long))]
			switch r.Intn(5) {
			case 0:
				i.Kids = append(i.Kids, &gen.Spec{Tag: "NOTE", Value: v})
			case 1:
				i.Kids = append(i.Kids, &gen.Spec{Tag: "SOUR", Value: "@S1@", Kids: []*gen.Spec{{Tag: "PAGE", Value: v}}})
			case 2:
				i.Kids = append(i.Kids, &gen.Spec{Tag: "OBJE", Kids: []*gen.Spec{{Tag: "FILE", Value: v}, {Tag: "TITL", Value: v}}})
			case 3:
				i.Kids = append(i.Kids, &gen.Spec{Tag: "RESI", Kids: []*gen.Spec{{Tag: "DATE", Value: "1881"}, {Tag: "PLAC", Value: v}, {Tag: "ADDR", Value: v}}})
			case 4:
				i.Kids = append(i.Kids, &gen.Spec{Tag: "NAME", Value: v + " /" + v + "/"}, &gen.Spec{Tag: "OCCU", Value: v}, &gen.Spec{Tag: "WWW", Value: v})
			}
		}
		for _, s := range c14Records(recs, "SOUR") {
			s.Kids = append(s.Kids, &gen.Spec{Tag: "TITL", Value: long[r.Intn(len(long))]}, &gen.Spec{Tag: "_LINK", Value: long[0]})
		}
		return recs
	}},
	{"no-dates-or-no-events-at-all", func(r *fw.Rand, recs []*gen.Spec) []*gen.Spec {
		// nothing in the file says when anybody lived (what is estimated from
		// relatives has to be estimated for everybody)
		events := map[string]bool{"BIRT": true, "BAPM": true, "CHR": true, "DEAT": true, "BURI": true, "MARR": true, "DIV": true, "RESI": true, "EVEN": true}
		stripEvents := r.Bool()
		var strip func(s *gen.Spec)
		strip = func(s *gen.Spec) {
			var ks []*gen.Spec
			for _, k := range s.Kids {
				if k.Tag == "DATE" || (stripEvents && events[k.Tag]) {
					continue
				}
				strip(k)
				ks = append(ks, k)
			}
			s.Kids = ks
		}
		for _, s := range recs {
			if s.Tag == "INDI" || s.Tag == "FAM" {
				strip(s)
			}
		}
		return recs
	}},
	{"several-marriages-with-unresolvable-partners", func(r *fw.Rand, recs []*gen.Spec) []*gen.Spec {
		inds := c14Records(recs, "INDI")
		var p *gen.Spec
		if len(inds) > 0 {
			p = inds[r.Intn(len(inds))]
		} else {
			p = &gen.Spec{Tag: "INDI", Pointer: "MM0", Kids: []*gen.Spec{{Tag: "NAME", Value: "Much /Married/"}, {Tag: "SEX", Value: "M"}}}
			recs = c14InsertBeforeTRLR(recs, p)
		}
		me := "@" + p.Pointer + "@"
		other := &gen.Spec{Tag: "INDI", Pointer: "MM9", Kids: []*gen.Spec{{Tag: "NAME", Value: "Real /Partner/"}, {Tag: "SEX", Value: "F"}, {Tag: "FAMS", Value: "@MF4@"}}}
		for k, v := range []string{"@NOPE1@", "@MF1@", "", "@MM9@", "@NOPE2@"} {
			role, mine := "WIFE", "HUSB"
			if k%2 == 1 && r.Bool() {
				role, mine = "HUSB", "WIFE"
			}
			fp := fmt.Sprintf("MF%d", k+1)
			recs = c14InsertBeforeTRLR(recs, &gen.Spec{Tag: "FAM", Pointer: fp, Kids: []*gen.Spec{{Tag: mine, Value: me}, {Tag: role, Value: v}, {Tag: "MARR", Kids: []*gen.Spec{{Tag: "DATE", Value: fmt.Sprintf("%d", 1850+k)}}}}})
			p.Kids = append(p.Kids, &gen.Spec{Tag: "FAMS", Value: "@" + fp + "@"})
		}
		return c14InsertBeforeTRLR(recs, other)
	}},
	{"cycle-of-people-without-any-date", func(r *fw.Rand, recs []*gen.Spec) []*gen.Spec {
		return c14InsertBeforeTRLR(recs,
			&gen.Spec{Tag: "INDI", Pointer: "DC1", Kids: []*gen.Spec{{Tag: "NAME", Value: "Dateless /One/"}, {Tag: "SEX", Value: "M"}, {Tag: "FAMS", Value: "@DF1@"}, {Tag: "FAMC", Value: "@DF2@"}}},
			&gen.Spec{Tag: "INDI", Pointer: "DC2", Kids: []*gen.Spec{{Tag: "NAME", Value: "Dateless /Two/"}, {Tag: "SEX", Value: "F"}, {Tag: "FAMS", Value: "@DF2@"}, {Tag: "FAMC", Value: "@DF1@"}}},
			&gen.Spec{Tag: "INDI", Pointer: "DC3", Kids: []*gen.Spec{{Tag: "NAME", Value: "Own /Child/"}, {Tag: "FAMS", Value: "@DF3@"}, {Tag: "FAMC", Value: "@DF3@"}}},
			&gen.Spec{Tag: "FAM", Pointer: "DF1", Kids: []*gen.Spec{{Tag: "HUSB", Value: "@DC1@"}, {Tag: "CHIL", Value: "@DC2@"}}},
			&gen.Spec{Tag: "FAM", Pointer: "DF2", Kids: []*gen.Spec{{Tag: "WIFE", Value: "@DC2@"}, {Tag: "CHIL", Value: "@DC1@"}}},
			&gen.Spec{Tag: "FAM", Pointer: "DF3", Kids: []*gen.Spec{{Tag: "HUSB", Value: "@DC3@"}, {Tag: "WIFE", Value: "@DC3@"}, {Tag: "CHIL", Value: "@DC3@"}}})
	}},
}

// all fault subsets of size <= 3 in a fixed order
func c14Subsets() [][]int {
	n := len(c14Faults)
	out := [][]int{{}}
	for a := 0; a < n; a++ {
		out = append(out, []int{a})
	}
	for a := 0; a < n; a++ {
		for b := a + 1; b < n; b++ {
			out = append(out, []int{a, b})
		}
	}
	for a := 0; a < n; a++ {
		for b := a + 1; b < n; b++ {
			for c := b + 1; c < n; c++ {
				out = append(out, []int{a, b, c})
			}
		}
	}
	return out
}

func c14CaseList(tier string, seed uint64) [][]int {
	all := c14Subsets()
	if tier == "thorough" {
		var o [][]int
		for k := 0; k < 4; k++ {
			o = append(o, all...)
		}
		return o
	}
	r := fw.NewRand(fw.Mix(seed, 1414))
	var o [][]int
	for _, s := range all {
		if len(s) < 3 || r.Chance(1, 4) {
			o = append(o, s)
		}
	}
	return o
}

func init() {
	fw.Register(&fw.Prop{
		ID:       "C14",
		CaseCPU:  900,
		Title:    "No command crashes on a file the decoder accepts",
		NeedsCLI: true,
		Cases:    func(tier string, seed uint64) int { return len(c14CaseList(tier, seed)) },
		Run:      c14Run,
		Batch:    func(tier string, n int) int { return 8 },
		Rule: "generated family graphs (0..15 people) perturbed by every subset of up to 3 of " + fmt.Sprint(len(c14Faults)) + " structural fault classes (dangling / wrong-kind / empty / malformed references, missing or odd names and surnames, self and cyclic relationships, duplicate pointers, empty families, sources without title or with path-like pointers, every date validity class, SEX anomalies, odd places, no individuals, living people, events without details, no dates or events anywhere, several marriages with unresolvable partners, cycles of people without any date); only files the decoder accepts count. " +
			"monitors: exit status + stderr of the real gedcom binary (warnings; publish in each -living mode with rotating page-group subsets and -jobs 1/4; diff against itself and against a clean twin with each -show/-sort; query with the documented examples in all formats) under a watchdog with deadlock analysis, plus an in-process twin under recover() for attribution (warnings, page rendering via Publisher.Files, Compare + DiffPage, queries). non-trivial = accepted file with at least one fault; distinct by file text",
		Floors: func(a *fw.Agg, tier string) []string {
			var f []string
			for _, k := range []string{"accepted-files", "cli-warnings", "cli-publish", "cli-diff", "cli-query", "twin-pages-rendered", "twin-diff-pages"} {
				if a.Counters[k] < 50 {
					f = append(f, fmt.Sprintf("%s=%d < 50", k, a.Counters[k]))
				}
			}
			for _, ft := range c14Faults {
				if a.Class("fault", ft.name) < 5 {
					f = append(f, "fault class hardly exercised: "+ft.name)
				}
			}
			return f
		},
		Assumptions: []string{
			"exit status 1 with an ERROR: line is an orderly error message (a pass); a crash is exit status 2 with a line starting 'panic: ' or 'fatal error: ', a signal, or a proven deadlock",
			"a watchdog firing without a provable deadlock is inconclusive",
		},
	})
}

const c14CPULimit = 20

var c14Hung bool // set when a CLI run of the current case hit the CPU limit

type c14Rec struct{ pages int }

func (w *c14Rec) WriteFile(f *core.File) error { return nil }

func c14Sig(cmd string, pi *fw.PanicInfo) string { return cmd + ":" + pi.Sig() }

// c14RunCLI runs the binary under a watchdog. It returns (crashed, hung, output).
func c14RunCLI(c *fw.Ctx, what string, args ...string) {
	bin := os.Getenv("VERIF_GEDCOM_BIN")
	if bin == "" {
		return
	}
	// CPU-time limit (load independent): these files take ~0.05 s of CPU; a
	// process that burns c14CPULimit seconds is in a busy loop. A process that
	// uses no CPU at all is asked for its goroutines (SIGQUIT): the dump says
	// whether it is dead-locked.
	res := fw.RunProcess(bin, args, nil, c14CPULimit, 600*time.Second)
	err, out := res.Err, res.Out
	c.Count("cli-"+strings.Fields(what)[0], 1)
	switch res.Hang {
	case "watchdog", "idle":
		c.Inconclusive("cli-" + res.Hang + ":" + strings.Fields(what)[0])
		return
	case "deadlock":
		c14Hung = true
		c.Violation("cli-"+strings.Fields(what)[0]+":deadlock@"+fw.InnermostRepoFrame(res.Dump), fmt.Sprintf("gedcom %s stopped making progress (no CPU time used at all) and the goroutine dump taken with SIGQUIT shows that no goroutine can run (hang)\n%s", strings.Join(args, " "), clip(res.Dump, 2500)), map[string]interface{}{"args": args, "what": what})
		return
	case "busy-loop":
		if !strings.Contains(out, "panic: ") && !strings.Contains(out, "fatal error: ") {
			c14Hung = true
			c.Violation("cli-"+strings.Fields(what)[0]+":busy-loop-cpu-limit", fmt.Sprintf("gedcom %s was killed after using more than %d s of CPU time on a file of a few dozen lines (hang)\n%s", strings.Join(args, " "), c14CPULimit, clip(out, 600)), map[string]interface{}{"args": args, "what": what})
			return
		}
	}
	if CrashedGo(out, err) {
		class := "panic"
		first := ""
		for _, l := range strings.Split(out, "\n") {
			if strings.HasPrefix(l, "panic: ") || strings.HasPrefix(l, "fatal error: ") {
				first = l
				break
			}
		}
		if strings.Contains(out, "all goroutines are asleep") {
			class = "deadlock"
		} else {
			class = fw.PanicClass(strings.TrimPrefix(strings.TrimPrefix(first, "panic: "), "fatal error: "))
		}
		crash := out
		if i := strings.Index(out, first); i >= 0 {
			crash = out[i:]
		}
		c.Violation("cli-"+strings.Fields(what)[0]+":"+class+"@"+fw.InnermostRepoFrame(crash), fmt.Sprintf("gedcom %s crashed:\n%s", strings.Join(args, " "), clip(crash, 1800)), map[string]interface{}{"args": args, "what": what})
	}
}

func c14Run(c *fw.Ctx, i int) {
	list := c14CaseList(c.Tier, c.Seed)
	set := list[i]
	r := c.R
	g := gen.NewFG(r, gen.FGOpts{People: r.Range(1, 15), MultiNames: true, WithSources: true, WithUIDs: true})
	recs := g.Specs()
	clean := gen.Text(g.Specs())
	var names []string
	for _, fi := range set {
		recs = c14Faults[fi].apply(r, recs)
		names = append(names, c14Faults[fi].name)
	}
	text := gen.Text(recs)
	if len(set) > 0 && r.Chance(1, 8) {
		text = "\xef\xbb\xbf" + text
	}
	if _, err := gedcom.NewDocumentFromString(text); err != nil {
		c.Count("rejected-files", 1)
		return
	}
	c.Count("accepted-files", 1)
	for _, n := range names {
		c.Class("fault", n)
	}
	if len(set) > 0 {
		c.NontrivialStr(text)
	}
	payload := map[string]interface{}{"gedcom": text, "faults": names}
	fresh := func() *gedcom.Document {
		d, _ := gedcom.NewDocumentFromString(text)
		return d
	}

	c14Hung = false
	// ---- the real binary ----
	dir := os.Getenv("VERIF_SCRATCH")
	if dir == "" {
		dir = os.TempDir()
	}
	dir = filepath.Join(dir, fmt.Sprintf("c14-%d-%d", os.Getpid(), i))
	os.MkdirAll(filepath.Join(dir, "out"), 0o755)
	defer os.RemoveAll(dir)
	file := filepath.Join(dir, "in.ged")
	cleanFile := filepath.Join(dir, "clean.ged")
	os.WriteFile(file, []byte(text), 0o644)
	os.WriteFile(cleanFile, []byte(clean), 0o644)
	c14RunCLI(c, "warnings", "warnings", file)
	groups := []string{"-no-individuals", "-no-places", "-no-families", "-no-surnames", "-no-sources", "-no-statistics"}
	for vi, vis := range []string{"show", "hide", "placeholder"} {
		args := []string{"publish", "-gedcom", file, "-output-dir", filepath.Join(dir, "out"), "-living", vis, "-jobs", []string{"1", "4"}[(i+vi)%2]}
		switch (i + vi) % 4 {
		case 1: // one group off
			args = append(args, groups[(i/4+vi)%len(groups)])
		case 2: // all off
			args = append(args, groups...)
		case 3: // two groups off
			args = append(args, groups[i%len(groups)], groups[(i+3)%len(groups)])
		}
		c14RunCLI(c, "publish -living "+vis, args...)
	}
	right := file
	if i%2 == 0 {
		right = cleanFile
	}
	c14RunCLI(c, "diff", "diff", "-left-gedcom", file, "-right-gedcom", right, "-output", filepath.Join(dir, "diff.html"),
		"-show", []string{"all", "only-matches", "subset"}[i%3], "-sort", []string{"written-name", "highest-similarity"}[(i/3)%2], "-jobs", []string{"1", "2"}[(i/6)%2])
	qs := c15Examples[i%len(c15Examples)]
	qargs := []string{"query", "-gedcom", file}
	if strings.Contains(qs, "Document2") {
		qargs = append(qargs, "-gedcom", cleanFile)
	}
	c14RunCLI(c, "query", append(qargs, "-format", c15Formats[(i/len(c15Examples))%len(c15Formats)], qs)...)
	if c14Hung {
		return // the in-process twin would spin in this worker as well
	}
	// ---- in-process twin (attribution) ----
	if pi := fw.Try(func() {
		for _, w := range fresh().Warnings() {
			_ = w.String()
			_ = w.Name()
		}
	}); pi != nil {
		c.Violation(c14Sig("warnings", pi), fmt.Sprintf("Document.Warnings()/String() panicked: %s (faults %v)", pi.Msg, names), payload)
	}
	for _, vis := range []html.LivingVisibility{html.LivingVisibilityShow, html.LivingVisibilityHide, html.LivingVisibilityPlaceholder} {
		opts := &html.PublishShowOptions{ShowIndividuals: true, ShowPlaces: true, ShowFamilies: true, ShowSurnames: true, ShowSources: true, ShowStatistics: true, LivingVisibility: vis}
		var pub *html.Publisher
		if pi := fw.Try(func() { pub = html.NewPublisher(fresh(), opts) }); pi != nil {
			c.Violation(c14Sig("publish-"+string(vis), pi), fmt.Sprintf("NewPublisher panicked: %s (faults %v)", pi.Msg, names), payload)
			continue
		}
		// render every page in this goroutine so that a panic can be attributed
		files := pub.Files(1000)
		seen := map[string]bool{}
		for f := range files {
			var buf bytes.Buffer
			c.Count("twin-pages-rendered", 1)
			if pi := fw.Try(func() { f.Component.WriteHTMLTo(&buf) }); pi != nil {
				sig := c14Sig("publish-"+string(vis), pi)
				if !seen[sig] {
					seen[sig] = true
					c.Violation(sig, fmt.Sprintf("rendering %s (-living %s) panicked: %s (faults %v)", f.Name, vis, pi.Msg, names), payload)
				}
			}
		}
	}
	pi, parked := fw.Guard(func() {
		l, rr := fresh(), fresh()
		if r.Bool() {
			rr, _ = gedcom.NewDocumentFromString(clean)
		}
		o := gedcom.NewIndividualNodesCompareOptions()
		comps := l.Individuals().Compare(rr.Individuals(), o)
		show := []string{html.DiffPageShowAll, html.DiffPageShowOnlyMatches, html.DiffPageShowSubset}[r.Intn(3)]
		srt := []string{html.DiffPageSortWrittenName, html.DiffPageSortHighestSimilarity}[r.Intn(2)]
		progress := make(chan gedcom.Progress, 100000)
		page := html.NewDiffPage(comps, &gedcom.FilterFlags{}, "", show, srt, progress, o, html.LivingVisibilityShow)
		var buf bytes.Buffer
		page.WriteHTMLTo(&buf)
		c.Count("twin-diff-pages", 1)
	})
	if pi != nil {
		c.Violation(c14Sig("diff", pi), fmt.Sprintf("Compare/DiffPage panicked: %s (faults %v)", pi.Msg, names), payload)
	}
	if parked != "" {
		c.Violation("diff:deadlock@"+fw.InnermostRepoFrame(parked), fmt.Sprintf("Compare/DiffPage never returns: every goroutine of the library is parked (faults %v)\n%s", names, clip(parked, 2500)), payload)
		return
	}
	for _, qs := range c15Examples {
		if strings.Contains(qs, "Document2") {
			continue
		}
		if pi := fw.Try(func() {
			e, err := q.NewParser().ParseString(qs)
			if err != nil {
				return
			}
			res, err := e.Evaluate([]*gedcom.Document{fresh()})
			if err != nil {
				return
			}
			for _, f := range c15Formats {
				var buf bytes.Buffer
				_ = c15Formatter(f, &buf).Write(res)
			}
		}); pi != nil {
			c.Violation(c14Sig("query", pi), fmt.Sprintf("query %q panicked: %s (faults %v)", qs, pi.Msg, names), payload)
		}
	}

	if c.WantSample("faulty-file") && len(set) == 3 {
		c.Sample("faulty-file", map[string]interface{}{"faults": names, "gedcom": clip(text, 500)})
	}
}
