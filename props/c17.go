package props

import (
	"bytes"
	"fmt"
	"os"
	"path/filepath"
	"sort"
	"strings"

	"github.com/elliotchance/gedcom/v39"
	"github.com/elliotchance/gedcom/v39/html"

	"verif/fw"
	"verif/gen"
)

// C17 — published sites reveal nothing about living people when told not to.

type c17Doc struct {
	g      *gen.FG
	living map[int]bool
	// name tokens per person: kind -> tokens
	tokens map[int]map[string][]string
}

func c17Make(r *fw.Rand, tokBase int) *c17Doc {
	g := gen.NewFG(r, gen.FGOpts{People: r.Range(3, 18), UniqueTokens: true, TokenBase: tokBase, ExactDates: true, MultiNames: true, WithSources: true, StartYear: 1780})
	d := &c17Doc{g: g, living: map[int]bool{}, tokens: map[int]map[string][]string{}}
	tok := tokBase + 5000
	next := func() string { tok++; return gen.Cap(gen.Token(tok)) }
	// everybody is clearly dead first: explicit DEAT unless born <= 1850
	for _, p := range g.People {
		b := p.Ev("BIRT")
		if p.Ev("DEAT") == nil && (b == nil || b.Y > 1850) {
			y := 1900
			if b != nil {
				y = b.Y + 40
			}
			p.Events = append(p.Events, &gen.Ev{Tag: "DEAT", Y: y, M: 3, D: 3, Place: next() + ", " + next()})
		}
		p.Living = false
	}
	// then make a random subset living, in every role
	for _, p := range g.People {
		if !r.Chance(2, 5) {
			continue
		}
		var evs []*gen.Ev
		for _, e := range p.Events {
			if e.Tag == "DEAT" || e.Tag == "BURI" {
				continue
			}
			evs = append(evs, e)
		}
		p.Events = evs
		switch r.Intn(4) {
		case 0: // no dates at all
			p.Events = nil
			if r.Bool() {
				p.Events = append(p.Events, &gen.Ev{Tag: "RESI", Place: next() + ", " + next()})
			}
		case 1: // living by the age rule, with a burial but no death
			for _, e := range p.Events {
				if e.Tag == "BIRT" || e.Tag == "BAPM" {
					e.Y = 2000 + r.Intn(15)
				}
			}
			if p.Ev("BIRT") == nil {
				p.Events = append(p.Events, &gen.Ev{Tag: "BIRT", Y: 2003, M: 4, D: 5, Place: next() + ", " + next()})
			}
			p.Events = append(p.Events, &gen.Ev{Tag: "BURI", Y: 2019, M: 1 + r.Intn(12), D: 1 + r.Intn(28), Place: next() + ", " + next()})
		default: // born 2000+
			for _, e := range p.Events {
				if e.Tag == "BIRT" || e.Tag == "BAPM" {
					e.Y = 2000 + r.Intn(15)
				}
			}
			if p.Ev("BIRT") == nil {
				p.Events = append(p.Events, &gen.Ev{Tag: "BIRT", Y: 2001 + r.Intn(10), M: 1 + r.Intn(12), D: 1 + r.Intn(28), Place: next() + ", " + next()})
			}
		}
		p.Living = true
		d.living[p.Idx] = true
	}
	// long names (components may cut them, or move them into a tool tip) and
	// places below facts that are not events (occupation, education, a custom tag)
	for _, p := range g.People {
		if r.Chance(1, 3) {
			p.Given = p.Given + " " + next() + " " + next() + " " + next()
		}
		if r.Chance(1, 2) {
			tag := []string{"OCCU", "EDUC", "NATI", "RELI", "TITL", "PROP", "_WORK"}[r.Intn(7)]
			p.Extra = append(p.Extra, &gen.Spec{Tag: tag, Value: "fact", Kids: []*gen.Spec{{Tag: "PLAC", Value: next() + ", " + next()}}})
		}
	}
	// surnames that are not listed under a letter from a to z: a digit, a
	// symbol, a letter outside a-z, no surname at all (living and dead people)
	for _, p := range g.People {
		if r.Chance(1, 6) {
			p.Surname = []string{"9" + next(), "(" + next() + ")", "Ö" + strings.ToLower(next()), "", "'t " + next(), "小" + next()}[r.Intn(6)]
		}
	}
	// family events happen somewhere too: the place pages then list events
	// that belong to a couple, not to one individual
	for _, f := range g.Families {
		for _, e := range f.Events {
			if e.Place == "" && r.Chance(2, 3) {
				e.Place = next() + ", " + next()
			}
		}
		if r.Chance(1, 4) {
			f.Events = append(f.Events, &gen.Ev{Tag: "DIV", Y: 1990, M: 1 + r.Intn(12), D: 1 + r.Intn(28), Place: next() + ", " + next()})
		}
	}
	// a living person sharing a place with a dead person
	var dead, alive []*gen.Person
	for _, p := range g.People {
		if d.living[p.Idx] {
			alive = append(alive, p)
		} else {
			dead = append(dead, p)
		}
	}
	if len(dead) > 0 && len(alive) > 0 && r.Bool() {
		if e := dead[0].Ev("BIRT"); e != nil {
			for _, le := range alive[0].Events {
				if le.Place != "" {
					le.Place = e.Place
					break
				}
			}
		}
	}
	// name parts
	for _, p := range g.People {
		t := map[string][]string{"given": strings.Fields(p.Given), "surname": {p.Surname}}
		for _, n := range p.Names {
			for _, w := range strings.Fields(strings.NewReplacer("/", " ").Replace(n)) {
				t["alternative-name"] = append(t["alternative-name"], w)
			}
		}
		if r.Chance(1, 3) {
			nick, npfx := next(), next()
			p.NameSub = append(p.NameSub, &gen.Spec{Tag: "NICK", Value: nick}, &gen.Spec{Tag: "NPFX", Value: npfx})
			t["nickname"] = []string{nick}
			t["name-prefix"] = []string{npfx}
		}
		// what a non-living person's page shows besides names: the places of
		// their events and of the events of the families they founded (these
		// kinds are not name tokens: they are never searched as "sensitive")
		words := func(place string) []string {
			return strings.FieldsFunc(place, func(r rune) bool { return r == ',' || r == ' ' })
		}
		for _, e := range p.Events {
			t["place:own-event"] = append(t["place:own-event"], words(e.Place)...)
		}
		for _, fi := range p.FamS {
			for _, e := range g.Families[fi].Events {
				t["place:family-event"] = append(t["place:family-event"], words(e.Place)...)
			}
		}
		d.tokens[p.Idx] = t
	}
	return d
}

// redraw returns a copy of the document in which every living person's
// names, event dates and places are drawn anew (same structure).
func (d *c17Doc) redraw(r *fw.Rand, tokBase int) string {
	tok := tokBase
	next := func() string { tok++; return gen.Cap(gen.Token(tok)) }
	type saved struct {
		given, sur string
		names      []string
		sub        []*gen.Spec
		evs        []gen.Ev
		extra      []*gen.Spec
	}
	keep := map[int]saved{}
	for _, p := range d.g.People {
		if !d.living[p.Idx] {
			continue
		}
		s := saved{p.Given, p.Surname, p.Names, p.NameSub, nil, p.Extra}
		var ex []*gen.Spec
		for _, x := range p.Extra {
			cx := &gen.Spec{Tag: x.Tag, Value: x.Value, Pointer: x.Pointer}
			for _, k := range x.Kids {
				ck := *k
				if ck.Tag == "PLAC" {
					ck.Value = next() + ", " + next()
				}
				cx.Kids = append(cx.Kids, &ck)
			}
			ex = append(ex, cx)
		}
		p.Extra = ex
		for _, e := range p.Events {
			s.evs = append(s.evs, *e)
		}
		keep[p.Idx] = s
		if n := len(strings.Fields(p.Given)); n > 1 {
			p.Given = next() + " " + next() + " " + next() + " " + next()
			p.Surname = next()
		} else {
			p.Given, p.Surname = next(), next()
		}
		var ns []string
		for range p.Names {
			ns = append(ns, next()+" /"+next()+"/")
		}
		p.Names = ns
		var sub []*gen.Spec
		for _, x := range p.NameSub {
			sub = append(sub, &gen.Spec{Tag: x.Tag, Value: next()})
		}
		p.NameSub = sub
		for _, e := range p.Events {
			if e.Y != 0 {
				if e.Y >= 2000 {
					e.Y = 2000 + r.Intn(20)
				}
				e.M, e.D = 1+r.Intn(12), 1+r.Intn(28)
			}
			if e.Place != "" {
				e.Place = next() + ", " + next()
			}
		}
	}
	text := d.g.Text()
	for _, p := range d.g.People {
		if s, ok := keep[p.Idx]; ok {
			p.Given, p.Surname, p.Names, p.NameSub, p.Extra = s.given, s.sur, s.names, s.sub, s.extra
			for i := range p.Events {
				*p.Events[i] = s.evs[i]
			}
		}
	}
	return text
}

func c17PageKind(name string) string {
	switch {
	case strings.HasPrefix(name, "individuals-"):
		return "individual-list"
	case name == "surnames.html", name == "places.html", name == "families.html", name == "sources.html", name == "statistics.html":
		return name
	}
	return "individual-or-place-or-source-page"
}

func c17N(tier string) int {
	if tier == "thorough" {
		return 600
	}
	return 120
}

func init() {
	fw.Register(&fw.Prop{
		ID:       "C17",
		Title:    "Published sites reveal nothing about living people when told not to",
		NeedsCLI: true,
		Cases:    func(tier string, seed uint64) int { return c17N(tier) },
		Run:      c17Run,
		Batch:    func(tier string, n int) int { return 2 },
		Rule: "generated family graphs whose every private string is a unique marker token (given names, surnames, alternative names, nicknames, name prefixes, places, also of marriages and divorces; dates unique per person), with living people fixed by construction in every role (child, spouse, parent, unconnected, sharing a surname or place with a dead person, no dates at all, born 2000+, buried but no death), published into a recording FileWriter with visibility hide and placeholder under page-group subsets (quick: 12 masks per document incl. all-on, each single group off, all-off; thorough: all 64) x jobs 1/4. " +
			"monitors: marker search (case-insensitive) for every name token owned only by living people over all file names and bytes; hide differential (document with every living person's names/dates/places redrawn must publish byte-identical files); non-living people keep their page and their own tokens as in show mode; one configuration per document through the real 'gedcom publish'. non-trivial = document with at least one living and one dead person; distinct by text + configuration",
		Floors: func(a *fw.Agg, tier string) []string {
			var f []string
			for _, k := range []string{"sites-published", "token-searches", "hide-differentials", "dead-pages-checked", "cli-runs", "living-people", "dead-people"} {
				if a.Counters[k] < 20 {
					f = append(f, fmt.Sprintf("%s=%d < 20", k, a.Counters[k]))
				}
			}
			return f
		},
		Assumptions: []string{
			"living = no DEAT and (no dates or born 2000+); dead = explicit DEAT or born <= 1850: decades away from the moving 100-year boundary, cross-checked against IsLiving() (a disagreement is inconclusive)",
			"in placeholder mode nothing is demanded about living people's dates and places; counts are not personal data",
		},
	})
}

func c17Run(c *fw.Ctx, i int) {
	r := c.R
	d := c17Make(r, (i*211)%20000)
	text := d.g.Text()
	doc, err := gedcom.NewDocumentFromString(text)
	if err != nil {
		c.HarnessError("C17 document does not decode: " + err.Error())
		return
	}
	byPtr := map[string]*gen.Person{}
	for _, p := range d.g.People {
		byPtr[p.Ptr] = p
	}
	for _, ind := range doc.Individuals() {
		p := byPtr[ind.Pointer()]
		if ind.IsLiving() != d.living[p.Idx] {
			c.Inconclusive("living-by-construction-disagrees-with-IsLiving")
			return
		}
	}
	nl, nd := 0, 0
	for _, p := range d.g.People {
		if d.living[p.Idx] {
			nl++
		} else {
			nd++
		}
	}
	c.Count("living-people", int64(nl))
	c.Count("dead-people", int64(nd))
	// sensitive tokens: owned only by living people
	deadTokens := map[string]bool{}
	for _, p := range d.g.People {
		if !d.living[p.Idx] {
			for _, ts := range d.tokens[p.Idx] {
				for _, t := range ts {
					deadTokens[strings.ToLower(t)] = true
				}
			}
		}
	}
	type sens struct{ tok, kind, who string }
	var sensitive []sens
	for _, p := range d.g.People {
		if d.living[p.Idx] {
			for kind, ts := range d.tokens[p.Idx] {
				if strings.HasPrefix(kind, "place:") {
					continue
				}
				for _, t := range ts {
					if lt := strings.ToLower(t); len(lt) >= 6 && !deadTokens[lt] {
						sensitive = append(sensitive, sens{lt, kind, p.Ptr})
					}
				}
			}
		}
	}
	sort.Slice(sensitive, func(a, b int) bool { return sensitive[a].tok < sensitive[b].tok })
	payload := map[string]interface{}{"gedcom": text}
	show, _ := publish(text, allGroups(html.LivingVisibilityShow), 1, 0)
	redrawn := d.redraw(r, 30000+(i*211)%20000)

	masks := []int{63, 62, 61, 59, 55, 47, 31, 0, 1, 8, 9, 21}
	if c.Thorough() {
		masks = nil
		for m := 0; m < 64; m++ {
			masks = append(masks, m)
		}
	}
	search := func(s *site, vis html.LivingVisibility, how string) {
		c.Count("token-searches", 1)
		reported := map[string]bool{}
		for name, body := range s.Files {
			lb := bytes.ToLower(body)
			ln := strings.ToLower(name)
			for _, t := range sensitive {
				inName := strings.Contains(ln, t.tok)
				if inName || bytes.Contains(lb, []byte(t.tok)) {
					where := c17PageKind(name)
					sig := fmt.Sprintf("name-leak:%s:%s:%s", t.kind, where, vis)
					if inName {
						sig = fmt.Sprintf("page-for-living-individual:%s:%s", t.kind, vis)
					}
					if reported[sig] {
						continue
					}
					reported[sig] = true
					ctx := ""
					if k := bytes.Index(lb, []byte(t.tok)); k >= 0 {
						from, to := k-80, k+80
						if from < 0 {
							from = 0
						}
						if to > len(body) {
							to = len(body)
						}
						ctx = string(body[from:to])
					}
					c.Violation(sig, fmt.Sprintf("[%s, -living %s] the %s %q of living individual %s is written to %s: ...%s...", how, vis, t.kind, t.tok, t.who, name, ctx), payload)
				}
			}
		}
	}
	for mi, mask := range masks {
		for _, vis := range []html.LivingVisibility{html.LivingVisibilityHide, html.LivingVisibilityPlaceholder} {
			jobs := []int{1, 4}[(mi+i)%2]
			s, err := publish(text, groupsFromMask(mask, vis), jobs, 0)
			if err != nil || s.Err != nil {
				c.Violation("publish-failed", fmt.Sprintf("publishing failed: %v %v", err, s.Err), payload)
				continue
			}
			c.Count("sites-published", 1)
			if nl > 0 && nd > 0 {
				c.NontrivialStr(fmt.Sprint(text, mask, vis))
			}
			search(s, vis, fmt.Sprintf("library mask=%06b jobs=%d", mask, jobs))
			// non-living people keep their pages and tokens
			if mask&1 != 0 && show != nil {
				for _, p := range d.g.People {
					if d.living[p.Idx] || p.NoName {
						continue
					}
					key := strings.ToLower(strings.Fields(p.Given)[0])
					for name, sb := range show.Files {
						if !strings.Contains(name, key) {
							continue
						}
						c.Count("dead-pages-checked", 1)
						body, ok := s.Files[name]
						if !ok {
							c.Violation("dead-person-page-missing:"+string(vis), fmt.Sprintf("the page %s of non-living individual %s exists with -living show but not with -living %s", name, p.Ptr, vis), payload)
							continue
						}
						for kind, ts := range d.tokens[p.Idx] {
							for _, t := range ts {
								if bytes.Contains(sb, []byte(t)) && !bytes.Contains(body, []byte(t)) {
									c.Violation("dead-person-data-missing:"+kind+":"+string(vis), fmt.Sprintf("page %s of non-living individual %s shows its %s %q with -living show but not with -living %s", name, p.Ptr, kind, t, vis), payload)
								}
							}
						}
					}
				}
			}
			// hide differential
			if vis == html.LivingVisibilityHide {
				c.Count("hide-differentials", 1)
				s2, err2 := publish(redrawn, groupsFromMask(mask, vis), jobs, 0)
				if err2 != nil || s2.Err != nil {
					c.HarnessError(fmt.Sprintf("C17 redrawn document failed to publish: %v", err2))
					continue
				}
				if a, b := strings.Join(s.names(), ","), strings.Join(s2.names(), ","); a != b {
					c.Violation("hide-differential:file-names", fmt.Sprintf("with -living hide the set of files depends on living people's data\nfiles:           %s\nafter redrawing: %s", clip(a, 500), clip(b, 500)), map[string]interface{}{"gedcom": text, "redrawn": redrawn})
					continue
				}
				for _, name := range s.names() {
					if !bytes.Equal(s.Files[name], s2.Files[name]) {
						// what kind of living data differs?
						x, y := s.Files[name], s2.Files[name]
						k := 0
						for k < len(x) && k < len(y) && x[k] == y[k] {
							k++
						}
						from := k - 100
						if from < 0 {
							from = 0
						}
						to := k + 100
						if to > len(x) {
							to = len(x)
						}
						kind := "other"
						ctx := strings.ToLower(string(x[from:to]))
						for _, p := range d.g.People {
							if !d.living[p.Idx] {
								continue
							}
							for _, e := range p.Events {
								for _, w := range strings.FieldsFunc(strings.ToLower(e.Place), func(r rune) bool { return r == ',' || r == ' ' }) {
									if w != "" && strings.Contains(ctx, w) {
										kind = "place"
									}
								}
							}
						}
						c.Violation("hide-differential:"+kind+":"+c17PageKind(name), fmt.Sprintf("with -living hide (mask %06b) the file %s differs between two documents that differ only in living people's data:\n...%s...\nvs\n...%s...", mask, name, x[from:to], y[from:minInt(to, len(y))]), map[string]interface{}{"gedcom": text, "redrawn": redrawn})
						break
					}
				}
			}
		}
	}
	// the same Document object published with -living show first and then hidden (one process, warm caches)
	if d2, err := gedcom.NewDocumentFromString(text); err == nil {
		publishDoc(d2, allGroups(html.LivingVisibilityShow), 1, 0)
		for _, vis := range []html.LivingVisibility{html.LivingVisibilityPlaceholder, html.LivingVisibilityHide} {
			s := publishDoc(d2, allGroups(vis), []int{1, 4}[i%2], 0)
			c.Count("sites-published", 1)
			c.Count("published-after-show-in-same-process", 1)
			search(s, vis, "same document object published with -living show before")
			fresh, _ := publish(text, allGroups(vis), 1, 0)
			if fresh != nil {
				for _, name := range fresh.names() {
					if !bytes.Equal(fresh.Files[name], s.Files[name]) {
						c.Violation("depends-on-earlier-publish:"+string(vis)+":"+c17PageKind(name), fmt.Sprintf("%s differs between a fresh publish with -living %s and a publish of the same document after it had been published with -living show", name, vis), payload)
						break
					}
				}
			}
		}
	}
	// the real binary, one configuration
	if bin := os.Getenv("VERIF_GEDCOM_BIN"); bin != "" {
		dir := os.Getenv("VERIF_SCRATCH")
		if dir == "" {
			dir = os.TempDir()
		}
		dir = filepath.Join(dir, fmt.Sprintf("c17-%d-%d", os.Getpid(), i))
		os.MkdirAll(filepath.Join(dir, "out"), 0o755)
		defer os.RemoveAll(dir)
		os.WriteFile(filepath.Join(dir, "in.ged"), []byte(text), 0o644)
		vis := []string{"hide", "placeholder"}[i%2]
		outS, err, okRun := runCLI(c, "cli-publish", payload, nil, 120, bin, "publish", "-gedcom", filepath.Join(dir, "in.ged"), "-output-dir", filepath.Join(dir, "out"), "-living", vis, "-jobs", "2")
		if !okRun {
			return
		}
		out := []byte(outS)
		c.Count("cli-runs", 1)
		if err != nil {
			c.Violation("cli-publish-failed", fmt.Sprintf("gedcom publish -living %s failed: %v\n%s", vis, err, clip(string(out), 600)), payload)
		} else {
			s := &site{Files: map[string][]byte{}}
			entries, _ := os.ReadDir(filepath.Join(dir, "out"))
			for _, e := range entries {
				b, _ := os.ReadFile(filepath.Join(dir, "out", e.Name()))
				s.Files[e.Name()] = b
			}
			search(s, html.LivingVisibility(vis), "gedcom publish")
		}
	}
	if c.WantSample("document") {
		var lv []string
		for _, p := range d.g.People {
			if d.living[p.Idx] {
				lv = append(lv, p.Ptr+" "+p.FullName())
			}
		}
		c.Sample("document", map[string]interface{}{"people": len(d.g.People), "living": lv, "sensitive_tokens": len(sensitive), "configurations": len(masks) * 2})
	}
}

func minInt(a, b int) int {
	if a < b {
		return a
	}
	return b
}
