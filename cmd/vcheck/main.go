// vcheck: supervisor and worker of the runtime-monitoring harness.
//
//	vcheck -prop C05 -tier quick            supervisor (spawns workers)
//	vcheck -prop C05 -replay replays/...    re-run one recorded case
//	vcheck -worker ...                      internal
package main

import (
	"flag"
	"fmt"
	"os"
	"strconv"
	"strings"
	"time"

	"verif/fw"
	_ "verif/props"
)

func main() {
	worker := flag.Bool("worker", false, "run as worker")
	prop := flag.String("prop", "", "property id")
	tier := flag.String("tier", "quick", "quick|thorough")
	seed := flag.Uint64("seed", 1, "seed (worker)")
	from := flag.Int("from", 0, "")
	to := flag.Int("to", 0, "")
	skip := flag.String("skip", "", "")
	out := flag.String("out", "", "")
	verbose := flag.Bool("verbose", false, "")
	cpu := flag.Int("cpulimit", 0, "CPU seconds one case may use (worker)")
	replay := flag.String("replay", "", "replay file")
	list := flag.Bool("list", false, "list properties")
	flag.Parse()
	if *list {
		for _, id := range fw.IDs() {
			p := fw.Lookup(id)
			fmt.Printf("%s race=%v cli=%v %s\n", id, p.Race, p.NeedsCLI, p.Title)
		}
		return
	}
	if *worker {
		sk := map[int]bool{}
		for _, s := range strings.Split(*skip, ",") {
			if s == "" {
				continue
			}
			v, _ := strconv.Atoi(s)
			sk[v] = true
		}
		os.Exit(fw.RunWorker(fw.WorkerArgs{Prop: *prop, Tier: *tier, Seed: *seed, From: *from, To: *to, Skip: sk, Out: *out, Verbose: *verbose, CPULimit: time.Duration(*cpu) * time.Second}))
	}
	if *tier != "quick" && *tier != "thorough" {
		fmt.Fprintln(os.Stderr, "tier must be quick or thorough")
		os.Exit(2)
	}
	os.Exit(fw.SuperMain(*prop, *tier, *replay))
}
